#!/bin/bash
# Runs the repository's pinned test suite with the verification guard OFF and compares the
# result with /root/.vp/BASELINE.json (every stable test must pass).
# usage: baseline.sh [repo-dir]   (default /repo)
REPO=${1:-/repo}
cd "$REPO" || exit 2
unset RUSTFLAGS
export CARGO_NET_OFFLINE=true
TD=${CARGO_TARGET_DIR:-$REPO/target}
rm -f "$TD/nextest/pb/junit.xml"
cargo nextest run --workspace --no-fail-fast --tool-config-file pb:/w/lib/nextest.toml --profile pb --test-threads 8 --offline >/tmp/baseline_$$.log 2>&1
python3 - "$TD/nextest/pb/junit.xml" <<'PY'
import json, sys, xml.etree.ElementTree as ET
base = json.load(open('/root/.vp/BASELINE.json'))
stable = set(base['stable_pass'])
passed, failed = set(), set()
try:
    root = ET.parse(sys.argv[1]).getroot()
except Exception as e:
    print("BASELINE-ERROR no junit:", e); sys.exit(2)
for tc in root.iter('testcase'):
    tid = (tc.get('classname') or '') + '::' + (tc.get('name') or '')
    if tc.find('failure') is not None or tc.find('error') is not None or tc.find('flakyFailure') is not None or tc.find('rerunFailure') is not None:
        failed.add(tid)
    elif tc.find('skipped') is None:
        passed.add(tid)
passed -= failed
missing = sorted(stable - passed)
print(f"baseline: {len(stable & passed)}/{len(stable)} stable tests passed; failed overall: {sorted(failed)}")
if missing:
    print("BASELINE-REGRESSION", missing[:40]); sys.exit(1)
print("BASELINE-OK")
PY
rc=$?
[ $rc -ne 0 ] && tail -30 /tmp/baseline_$$.log
rm -f /tmp/baseline_$$.log
exit $rc
