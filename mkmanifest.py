#!/usr/bin/env python3
"""Regenerates /verif/MANIFEST.json from the table below (kept in one place so the manifest is
always schema-valid and complete: every property is either claimed or listed as not_applicable)."""
import json, subprocess, sys

ALL = ["C%02d" % i for i in range(1, 21)]

# id -> (engine, category, technique, level text, level note, design ref)
E1_NOTE = "Trusted base: the harness's transliteration of the per-transaction select! loop (world.rs; validated against the real daemon loop by the daemon-dbx conformance runs), hooks H1 (virtual clock), H3 (loop accessors), H4 (state fingerprint, audited at run time as a bisimulation). Bounded: files <= 3 segments of 16/24 bytes, fault pool F <= 2 (3 for drops), max_count <= 4."

CHECKS = {
    "C01": ("txn-mc", "model_checking",
            "explicit-state BFS to closure over event histories; every transition calls the real SendTransaction/RecvTransaction handlers; monitor on every Finished indication",
            "All reachable states of the real sender/receiver pair under an adversarial link (drop, duplicate, overtake, delay past a timer, payload corruption with CRC on) with a shared fault pool F=1 (quick) / F=2 (thorough), both modes, closure on/off, deferred/immediate NAK with and without delay, Modular/Null checksum, contents chosen to be checksum-neutral in the first/middle/last segment, a stale longer file pre-existing under the destination name, 3-segment files with reordering, CRC on with payload/offset/CRC-octet corruption (also with the Null file checksum); at every success indication of either entity and in every terminal state the destination file must equal the source.",
            E1_NOTE, "DESIGN.md section 4 C01"),
    "C02": ("txn-mc", "model_checking",
            "explicit-state BFS to closure over the real handlers; terminal-state oracle plus deadlock and cycle (livelock) detection on the state graph",
            "Acknowledged mode, every placement of up to F faults (drop/duplicate/overtake/delay; F=1 everywhere, F=2 on small files of the deferred and immediate procedures quick; F=2 everywhere and F=3 drops-only with limit 4 thorough) over all PDUs of both directions, sizes 0,1,seg-1,seg,seg+1,2seg,(3seg-1), four NAK procedures, CRC variant, segment sizes at and below the size of one NAK segment request (12, 8, 7, 4, 1): every terminal state must have destination == source, receiver and sender success indications, both transactions ended; no deadlock, no cycle, no side emitting PDUs for ever without input (spin). Daemon level (daemon-dbx): real daemons, a single acknowledged transfer (17 bytes, <= 1 deviation; the empty file, <= 2 deviations so that the EOF is the first PDU to arrive): every PDU for a live or new receiver must be handed to a transaction, and a transfer that leaves the transaction model is run on over a faithful link and must still deliver the file when no PDU was lost twice and nothing was delayed (run-on judgement: the real daemons are left running over a faithful link for twice the C03 bound).",
            E1_NOTE, "DESIGN.md section 4 C02"),
    "C03": ("txn-mc", "model_checking",
            "explicit-state BFS to closure with blackout as an ordinary event (placed before/after every PDU), graph conditions: no deadlock state, no cycle, time bound per path",
            "Blackout of either/both directions at every state of the exchange, alone, combined with one fault (drop/dup/delay), combined with a user cancel at either entity and one fault, and with a NAK or keep-alive prompt at any state (also in unacknowledged mode with closure); plus independently the C02 fault pool; both modes, closure, NAK procedures, max_count 2 (and 3 thorough), default and Abandon handlers: plus the immediate NAK procedure crossed with a cancel at the receiver and late file data (all four procedures and both cancellers thorough), and a segment size below one NAK request: no Active transaction is ever left without an enabled event (deadlock), the time-abstract state graph is acyclic (no livelock), no side emits more PDUs in a row than the exchange can need without input or timer (spin); daemon level: in every real-daemon run that leaves the transaction model the task loops of the transaction must have ended after twice the bound (transaction-never-ends), and a schedule that does not return within 120 s of real time is reported as a task that never goes idle, and every transaction ends within (max_count+1)*(inactivity+ack+nak) virtual seconds after the last PDU delivered to it.",
            E1_NOTE + " The daemon-level clause (keeps serving other transactions) is part of C11's daemon-dbx runs.", "DESIGN.md section 4 C03"),
    "C04": ("txn-mc", "model_checking",
            "explicit-state BFS to closure with straggler re-delivery of every PDU ever sent, armed from the receiver's first success indication",
            "After the receiver's first NoError/Complete indication every single (quick) / double (thorough) re-delivery of any previously sent PDU, combined with F drops of ACK(EOF)/Finished/ACK(Finished): receiver filestore snapshot (destination and the files of a non-idempotent append request) never changes, no checksum/size failure is reported or sent, the sender reports success only if the receiver did. File transfers and request-only transactions, Modular and Null checksum, acknowledged and unacknowledged+closure; plus a bad EOF (wrong checksum / size) injected before completion, after which the sender must not claim NoError/Complete; user requests at the receiver (a Report whose requester has gone, suspend/resume) during a lost closing handshake. Daemon level: the completing PDU delivered in a burst to real daemons; once the receiving user has been told NoError/Complete the same receive task reports no second delivery and no verdict on the file.",
            E1_NOTE, "DESIGN.md section 4 C04"),
    "C07": ("txn-mc", "model_checking",
            "explicit-state BFS to closure; the explorer injects NAK PDUs from an alphabet of conforming and non-conforming request lists at every state; monitor on every PDU the sender emits",
            "Every PDU the real sender hands to the transport is checked: file data bytes/offset/length against the source, first pass tiles the file once in order before EOF, retransmissions lie inside what was requested and everything requested inside the file is retransmitted before the sender goes idle, cursor unchanged by retransmissions, metadata/EOF fields (size, names, reference checksum), header ids/mode/direction, length field through encode/decode. NAK alphabet: empty, beyond EOF, longer than a segment, overlapping, unsorted, duplicated, the 0-0 marker; 1 (quick) / 2 (thorough) injected NAKs also during the first pass; real-receiver NAKs under F faults; user suspend/resume at the sender at every state (a NAK handed to a suspended sender must be answered after resume). Daemon level (daemon-dbx): on every PDU leaving a real daemon the sizes stated in Metadata and EOF(NoError) equal the source's, also when the Put names a symbolic link or no destination file; no file data PDU longer than the configured segment (segment size 10); names and request list of the Metadata as in the Put.",
            E1_NOTE + " Inverted ranges (start > end) are not in the alphabet: the property does not list them.", "DESIGN.md section 4 C07"),
    "C08": ("txn-mc", "model_checking",
            "explicit-state BFS to closure with drops-only pools large enough for every loss subset; fill-time oracle on the receiver's request queue (hook H3) and per-PDU well-formedness",
            "Every subset of lost metadata/data segments for files of 0..2 (3 thorough) segments, EOF first / data after EOF / duplicated EOF / one prompt under F faults, four NAK procedures, segment size 16 (one request per NAK PDU) and 20/28 (capacity not a multiple of the request size, several separate gaps), 24 with delayed checks of different windows falling due together, link latency (wait events) giving delayed checks different due times, suspend/resume at the receiver: each NAK request non-empty or the marker, inside scope and file, PDU within the configured size, no unsolicited NAK before EOF (deferred), new gaps requested at once or after the delay (immediate), and whenever the request list is computed after EOF — or gets shorter without a NAK going out — it equals exactly the bytes not yet delivered (+marker iff metadata missing); loss combined with a timer expiry before EOF; the receiver never finishes while something is missing.",
            E1_NOTE, "DESIGN.md section 4 C08"),
    "C10": ("txn-mc", "model_checking",
            "explicit-state BFS to closure with one user cancel placed at every state, at either entity",
            "Cancel at sender or receiver at every state of a 3-segment transfer, combined with one drop (F=1) or blackout, both modes, closure on/off: canceller ends (no deadlock, no cycle), reachable peer ends, both report CancelReceived unless the delivery had completed first (cancel lost the race) or the mode has no return path / no retransmission for the lost PDU; a file under the destination name after the cancel is always the complete source and only if the receiver reported success; two losses in acknowledged mode (something still missing when the cancel is issued, and the EOF (cancel) lost). Daemon level: cancel at either side on real daemons in both modes; when a run leaves the model the link of the run-on phase loses the first copy of every PDU and the receiving user must still be told the cancel.",
            E1_NOTE, "DESIGN.md section 4 C10"),
    "C18": ("txn-mc", "model_checking",
            "explicit-state BFS to closure over unacknowledged-mode scenarios",
            "Unacknowledged mode x closure off/on x sizes 0,1,seg,2seg+1 x zero/neutral contents x every single (quick) / double (thorough) loss, duplication, overtaking, and blackout: the receiver never sends ACK/NAK/keep-alive (nor Finished without closure), the sender sends metadata, each segment and EOF exactly once, with closure the Finished PDU states the receiver's true outcome and the sender ends only after receiving it or exhausting a limit and reports that outcome, a receiver missing data or metadata never reports Complete, a Finished PDU reaching the closure sender in any phase is reported to its user, and both transactions end (also under a user cancel at either side).",
            E1_NOTE, "DESIGN.md section 4 C18"),
    "C19": ("txn-mc", "model_checking",
            "explicit-state BFS to closure with suspend and resume placed at every pair of states, idle time while suspended",
            "User suspend then resume at every pair of states at sender or receiver, idle periods of 1 and 10 timer periods while everything is paused, optional drop: while suspended the entity emits no Metadata/FileData/EOF/NAK/Finished and declares no Fault/Abandon; after resume, when no peer timer expired during the suspension, the C02 terminal clauses hold; a Prompt requested during the suspension and F=2 losses around a receiver suspension are included. Daemon level: suspend/resume at either side of real daemons (also with a NAK delay, so that a delayed gap check falls due during the suspension): nothing forbidden appears in the transport slot of a suspended transaction, and after the resume the file arrives.",
            E1_NOTE + " The select! guard itself is exercised by the daemon-dbx conformance runs.", "DESIGN.md section 4 C19"),
    "C20": ("txn-mc", "model_checking",
            "explicit-state BFS to closure with keep-alive prompts, suspend/resume and limit faults at every state; the monitor keeps its own bit set of delivered bytes",
            "Every KeepAlive PDU and every receiver Fault/Resumed/Abandon indication must state the number of distinct bytes delivered to the receiver; every sender Fault/Resumed/Abandon the highest offset+length transmitted; never above the file size, never decreasing. Sizes 0,17,47 (more thorough), lossy link, blackout scenarios with default and Abandon handlers.",
            E1_NOTE, "DESIGN.md section 4 C20"),
    "C05": ("enum", "exploration",
            "bounded exhaustive enumeration of a product grid of well-formed PDU values; oracle decode(encode(v)) == v and announced length == produced length",
            "Complete product (fixed order) of header flag combinations, id widths 1/2/4/8 (equal-width entity ids, independent sequence-number width), boundary id values, every directive with every discrete field value, boundary numeric fields under both file-size flags, LV/TLV bodies of lengths 0/1/254/255, TLV sequences up to length 2 (quick) / 3 (thorough), NAK lists, segment metadata, every UserOperation variant and Report: 8.9 M (quick) / 39.7 M (thorough) values, each round-tripped and length-checked inside catch_unwind.",
            "Boundary alphabets for numeric and string fields, not all values; only well-formed values are generated. One known finding (PDU::encoded_len overflows u16 for > 64 KiB PDUs) is listed in known_findings.json.", "DESIGN.md section 4 C05"),
    "C06": ("enum", "exploration",
            "bounded exhaustive enumeration of byte strings and of the mutation neighbourhood of a PDU corpus through every public decoder, under a counting global allocator; plus a running daemon fed with the rejected inputs",
            "All byte strings of length <= 2 (quick) / 3 (thorough) and boundary-alphabet strings of length <= 6 / 8 through PDU::decode and every per-type decoder; for each corpus PDU (16 shapes x 2 file-size flags x 2 CRC settings) every truncation, every single-byte substitution, length/flag fields forced to boundary values, every octet forced to 0xFF/0xFE with 300 filler octets present behind it; hand-assembled Finished PDUs whose response TLV fills 254/255 octets; all 2^16 header lengths x CRC flag: no panic (overflow checks on), no single allocation above 256 KiB, and whatever is accepted re-encodes (length recomputed) and decodes to itself.",
            "Length- and alphabet-bounded; two pruning rules (documented with their soundness argument in en_decode.rs) skip strings whose outcome is determined by a shorter prefix.", "DESIGN.md section 4 C06"),
    "C11": ("daemon-dbx", "model_checking",
            "deviation-bounded exhaustive scheduling of 2-3 real Daemon tasks (CHESS-style iterative bounding over take/deliver/drop/advance/user/stray choices) with per-transaction differential twins driven by the observed loop steps (hook H5)",
            "Real daemons A, B (C thorough) with really spawned transaction tasks on a paused clock; T1 A->B acknowledged, T2 B->A unacknowledged with the same sequence number, T3 sharing A's transport slot, three Puts with the sequence counter starting at U8(254); every schedule with <= 2 deviations from the default (both tiers; the thorough tier adds a third daemon, Abandon handlers and the immediate procedure without delay), deviations being cross-transaction reordering, drops, overtaking, stray PDUs (responses for senders that do not exist, misrouted responses whose source entity is the peer or unknown — nothing may run for them —, an entity without transport, file data for an unknown id, replays of delivered PDUs, PDUs reflected back to the daemon that sent them), a fire-and-forget Put (reply never read) before the last Put of every schedule, a burst of more copies of one PDU than a transaction's command queue holds, a suspension of one of two senders sharing a transport slot, user requests naming ended or unknown transactions at the end of every schedule, per-entity configurations that differ from the daemons' default at any point: Put ids distinct, each transaction's PDUs, indications, destination file and termination equal those of its isolated twin, daemons keep running and answering Report/Put after every stray, stray-started receivers end by their limits. The same runs validate E1's loop model against the real select! loops (single-transaction conformance).",
            "Tens of transactions are not reached: 3 transactions, 3 daemons. A transaction sends as soon as its slot is free and time does not pass while a slot is full. Twin divergence in single-transaction scenarios is reported as machinery error (MODEL-DIVERGENCE), in multi-transaction scenarios as isolation violation.", "DESIGN.md section 4 C11"),
    "C12": ("enum", "exploration",
            "bounded exhaustive enumeration of path names over a component alphabet for every filestore entry point; lexical oracle with an independent resolver plus before/after snapshot of everything outside the root",
            "All names of <= 4 (quick) / 5 (thorough) components over {a, ., .., empty, the absolute root path, a sibling whose name extends the root's} with and without leading '/', each in three styles (joined by '/'; the same with the root configured with a trailing separator; joined and led by backslashes, which a Unix filestore must treat as ordinary characters), through get_native_path, create/delete/rename/append/replace, create/remove/list directory, open (read, create-write), get_size and process_request with all nine actions, in a jail whose content outside the root is snapshotted around every operation and whose outside files carry a canary text that must never appear inside the root.",
            "The harness's own path resolver and snapshot are trusted; operations whose effective path lies outside the jail are not executed (the harness runs as root) but reported. Symlinks are not part of the alphabet.", "DESIGN.md section 4 C12"),
    "C13": ("seq-mc", "model_checking",
            "explicit-state BFS over filestore states: every transition is the real NativeFileStore::process_request on a re-materialised tree, compared with a pure reference model; plus txn-mc scenarios carrying request lists",
            "Dispatcher: from every consistent tree over the namespace {f1,f2,d1,d1/f3,d2} all nine actions x first x second name (incl. a missing name and the empty name) to depth 2 (quick) / 3 (thorough): status code, echoed names and the whole resulting tree must equal the reference, a failed request changes nothing. Transaction level (txn-mc): request lists [create, append (non-idempotent), delete-missing (fails), rename] under the C02/C04 fault budgets, under a receiver cancel, under an injected bad EOF, and under losses the checksum cannot see (Null checksum, zero content) in unacknowledged mode: no effect before the success indication, each effect once, in order, not-performed after the first failure or when delivery failed, same responses in the receiver's indication, the Finished PDU and the sender's indication. Daemon level: a Put with [create, append, append, rename] on real daemons in every mode; the request list of the outgoing Metadata equals the Put's.",
            "Reference semantics follow the repository's own process_failures tests where CFDP and the code differ; seven classes the statement leaves open are listed under coverage.unconstrained_cases and never flagged.", "DESIGN.md section 4 C13"),
    "C14": ("enum", "exploration",
            "bounded exhaustive enumeration of contents, lengths and read-chunk schedules against the checksum definition written naively",
            "FileChecksum::checksum on Cursor and real files for every length 0..=64, 8185..=8200, 16380..=16390 with ramp / all-FF / single-byte contents, and on a scripted Read+Seek for all 2^(n-1) compositions of every n <= 14 (quick) / 18 (thorough) plus boundary scripts around the 8 KiB BufReader buffer; Null gives 0; every single-byte change (3 values, all positions, lengths <= 64) changes the sum.",
            "The naive reference (zero-pad, big-endian words, wrapping sum) is the CCSDS definition.", "DESIGN.md section 4 C14"),
    "C15": ("enum", "fault_enumeration",
            "exhaustive enumeration of bit-error patterns (single, double, odd-weight, bursts) over the CRC-protected bytes of a PDU corpus",
            "For one PDU of every payload type x both file-size flags with CRC: every single-bit flip, every pair within 256 bits (quick) / all pairs (thorough), every triple in a 24-bit window, every burst of length <= 13 (quick) / 16 (thorough) with all interiors, at every position after the 4 fixed header octets including the CRC itself (34 M quick / 251 M thorough patterns): decode rejects, or returns the original; the unaltered bytes decode to the original; never a panic.",
            "'Any odd number of flips' is covered for weight 1, weight 3 within 24 bits and the odd patterns inside bursts; the general statement is a theorem about the polynomial.", "DESIGN.md section 4 C15"),
    "C16": ("enum", "fault_enumeration",
            "exhaustive two-step histories on the real UdpTransport over loopback: every truncation of every datagram after every other datagram, differential against decoding the bytes alone",
            "Corpus of 14 (quick) / 40 (thorough) valid datagrams (all PDU types, with/without CRC); for every ordered pair (L, V) and every truncation length t in 0..=len(V): send L, receive, send V[..t], receive on a fresh transport; the second result must equal PDU::decode(V[..t]) computed on those bytes alone and must be a rejection for every proper truncation, the first decode(L); a receive() call that produces nothing is kept alive across a sentinel datagram to see whether the truncated bytes were held and completed.",
            "Needs loopback UDP (available in this sandbox; the repository's own integration tests need it too).", "DESIGN.md section 4 C16"),
    "C17": ("txn-mc", "model_checking",
            "explicit-state BFS to closure with blackout at every state and delay faults, exact virtual timestamps; plus explicit-state search of the real Counter against an integer reference",
            "Limits 1-2 (quick) / 1-3 (thorough) x handler table {unset, cancel, ignore, suspend, abandon} for positive-ack, NAK, inactivity and check-limit faults, blackout placed at every state plus one delay fault, late answers (F=2 drops+delay), checksum/size faults by an injected bad EOF, a timeout grid with the inactivity timeout shorter than the others: no limit fault earlier than max_count x timeout after the first unanswered transmission / the last PDU received, retransmissions never earlier than one timeout apart and exactly max_count transmissions before the fault, answers reset the count, the condition named is one that exists for that side and mode (acknowledged mode with the closure flag set included), a NAK limit is not declared right after new data reset the count (partial answers round after round), and the action taken at every declared fault is the configured one (nothing transmitted after Abandon/Suspend). Daemon level: an octet-identical retransmission by a real daemon with nothing received in between is never earlier than the configured timeout of that timer, with ack timeout above and below the NAK timeout.",
            E1_NOTE + " Time does not pass while a transaction has a PDU ready for its transport (a local transport stalled for a whole timer period is not modelled).", "DESIGN.md section 4 C17"),
    "C09": ("seq-mc", "model_checking",
            "explicit-state BFS to closure over the real Segments::merge with a bit-set reference model, all queries evaluated in every state",
            "Every merge sequence over an M-position universe (M=9 quick, 14 thorough) at three bases (0, straddling 2^32, ending at 2^64-1) is explored to closure (all 2^M held-sets per base); in every reached state all is_complete(n) and all gaps(s,e) windows are compared with a bit set, and every merge return with the growth of the union. Exhaustive within the universe, which is the right level for a pure data structure whose defects are about range shapes, not magnitudes. Protocol level (txn-mc): the real receive transaction under loss/overtaking plus injected file data inside, across and beyond the announced file size; in every state of its receiving phase its segment list and byte count must equal the union of the data handed to it, a complete delivery is reported only with every byte of [0,n) held, and a complete file is recognised at once.",
            "Assumes translation invariance between the explored bases and that segments longer than M behave like those of length <= M. Hook H2 re-exports the crate-private type.",
            "DESIGN.md section 4 C09"),
}

NOT_YET = "no check built yet in this tree; the plan for it is in DESIGN.md section 4"

def main():
    hooks = subprocess.run(["git", "-C", "/repo", "log", "--format=%H %s"], capture_output=True, text=True).stdout.splitlines()
    hook_commits = [l.split()[0] for l in hooks if "verif hook" in l or "uncommitted hook changes" in l]
    checks = []
    for pid in ALL:
        if pid not in CHECKS:
            continue
        eng, cat, tech, text, note, ref = CHECKS[pid]
        checks.append({
            "property_id": pid,
            "quick_cmd": f"./check {pid} --tier quick",
            "thorough_cmd": f"./check {pid} --tier thorough",
            "evidence_file": f"/verif/evidence/{pid}.json",
            "replay_cmd_template": f"./check {pid} --replay {{path}}",
            "engine": eng,
            "level_claimed": {"category": cat, "text": text, "design_ref": ref},
            "level_note": note,
            "technique": tech,
        })
    m = {
        "version": 1,
        "setup_cmd": "cd /verif/harness && CARGO_NET_OFFLINE=true cargo build --profile verif --offline",
        "hooks": {
            "guard": "--cfg cfdp_verif",
            "enable": "RUSTFLAGS=\"--cfg cfdp_verif\" (set in /verif/harness/.cargo/config.toml; the harness depends on /repo/cfdp-core and /repo/cfdp-daemon by path and has its own target dir)",
            "baseline_off_cmd": "/verif/baseline.sh",
            "source_commits": hook_commits,
            "add_only": False,
        },
        "engines": [
            {"name": "seq-mc", "path": "/verif/harness/src/seq_*.rs", "serves_properties": ["C09", "C13", "C17"],
             "kind_free_text": "explicit-state BFS over the real sequential component, reference model in lock step"},
            {"name": "txn-mc", "path": "/verif/harness/src/world.rs", "serves_properties": ["C01", "C02", "C03", "C04", "C07", "C08", "C09", "C10", "C13", "C17", "C18", "C19", "C20"],
             "kind_free_text": "explicit-state BFS whose transitions call the real SendTransaction/RecvTransaction handlers on a paused tokio clock, adversarial link, per-property monitors"},
            {"name": "daemon-dbx", "path": "/verif/harness/src/daemon_world.rs", "serves_properties": ["C11", "C03", "C06"],
             "kind_free_text": "deviation-bounded exhaustive scheduling of real Daemon tasks under a controlled transport and paused clock; twin conformance against txn-mc"},
            {"name": "enum", "path": "/verif/harness/src/en_*.rs", "serves_properties": ["C05", "C06", "C12", "C14", "C15", "C16"],
             "kind_free_text": "bounded exhaustive enumeration of inputs / fault patterns / read-chunk schedules against definitional or differential oracles"},
        ],
        "checks": checks,
        "not_applicable": [{"property_id": p, "reason": NOT_YET} for p in ALL if p not in CHECKS],
        "notes": "All checks rebuild the harness from /repo's working tree (path dependencies) before running. Exit 0 = held on everything explored; exit 1 + VIOLATION line = unlisted violation; exit 2 = machinery error (never a verdict). Known findings: /verif/known_findings.json.",
    }
    json.dump(m, open("/verif/MANIFEST.json", "w"), indent=1)
    try:
        import jsonschema
        jsonschema.validate(m, json.load(open("/root/.vp/MANIFEST.schema.json")))
        print("MANIFEST valid;", len(checks), "checks,", len(m["not_applicable"]), "not applicable")
    except ImportError:
        print("jsonschema not available; written without validation")

if __name__ == "__main__":
    main()
