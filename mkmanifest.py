#!/usr/bin/env python3
"""Regenerates /verif/MANIFEST.json from the table below (kept in one place so the manifest is
always schema-valid and complete: every property is either claimed or listed as not_applicable)."""
import json, subprocess, sys

ALL = ["C%02d" % i for i in range(1, 21)]

# id -> (engine, category, technique, level text, level note, design ref)
CHECKS = {
    "C09": ("seq-mc", "model_checking",
            "explicit-state BFS to closure over the real Segments::merge with a bit-set reference model, all queries evaluated in every state",
            "Every merge sequence over an M-position universe (M=8 quick, 11 thorough) at three bases (0, straddling 2^32, ending at 2^64-1) is explored to closure (all 2^M held-sets per base); in every reached state all is_complete(n) and all gaps(s,e) windows are compared with a bit set, and every merge return with the growth of the union. Exhaustive within the universe, which is the right level for a pure data structure whose defects are about range shapes, not magnitudes.",
            "Assumes translation invariance between the explored bases and that segments longer than M behave like those of length <= M. Hook H2 re-exports the crate-private type.",
            "DESIGN.md section 4 C09"),
}

NOT_YET = "no check built yet in this tree; the plan for it is in DESIGN.md section 4"

def main():
    hooks = subprocess.run(["git", "-C", "/repo", "log", "--format=%H %s"], capture_output=True, text=True).stdout.splitlines()
    hook_commits = [l.split()[0] for l in hooks if "verif hook" in l or "uncommitted hook changes" in l]
    checks = []
    for pid in ALL:
        if pid not in CHECKS:
            continue
        eng, cat, tech, text, note, ref = CHECKS[pid]
        checks.append({
            "property_id": pid,
            "quick_cmd": f"./check {pid} --tier quick",
            "thorough_cmd": f"./check {pid} --tier thorough",
            "evidence_file": f"/verif/evidence/{pid}.json",
            "replay_cmd_template": f"./check {pid} --replay {{path}}",
            "engine": eng,
            "level_claimed": {"category": cat, "text": text, "design_ref": ref},
            "level_note": note,
            "technique": tech,
        })
    m = {
        "version": 1,
        "setup_cmd": "cd /verif/harness && CARGO_NET_OFFLINE=true cargo build --profile verif --offline",
        "hooks": {
            "guard": "--cfg cfdp_verif",
            "enable": "RUSTFLAGS=\"--cfg cfdp_verif\" (set in /verif/harness/.cargo/config.toml; the harness depends on /repo/cfdp-core and /repo/cfdp-daemon by path and has its own target dir)",
            "baseline_off_cmd": "/verif/baseline.sh",
            "source_commits": hook_commits,
            "add_only": False,
        },
        "engines": [
            {"name": "seq-mc", "path": "/verif/harness/src/seq_*.rs", "serves_properties": ["C09", "C13", "C17"],
             "kind_free_text": "explicit-state BFS over the real sequential component, reference model in lock step"},
            {"name": "txn-mc", "path": "/verif/harness/src/world.rs", "serves_properties": ["C01", "C02", "C03", "C04", "C07", "C08", "C10", "C13", "C17", "C18", "C19", "C20"],
             "kind_free_text": "explicit-state BFS whose transitions call the real SendTransaction/RecvTransaction handlers on a paused tokio clock, adversarial link, per-property monitors"},
            {"name": "daemon-dbx", "path": "/verif/harness/src/daemon_world.rs", "serves_properties": ["C11", "C03", "C06"],
             "kind_free_text": "deviation-bounded exhaustive scheduling of real Daemon tasks under a controlled transport and paused clock; twin conformance against txn-mc"},
            {"name": "enum", "path": "/verif/harness/src/en_*.rs", "serves_properties": ["C05", "C06", "C12", "C14", "C15", "C16"],
             "kind_free_text": "bounded exhaustive enumeration of inputs / fault patterns / read-chunk schedules against definitional or differential oracles"},
        ],
        "checks": checks,
        "not_applicable": [{"property_id": p, "reason": NOT_YET} for p in ALL if p not in CHECKS],
        "notes": "All checks rebuild the harness from /repo's working tree (path dependencies) before running. Exit 0 = held on everything explored; exit 1 + VIOLATION line = unlisted violation; exit 2 = machinery error (never a verdict). Known findings: /verif/known_findings.json.",
    }
    json.dump(m, open("/verif/MANIFEST.json", "w"), indent=1)
    try:
        import jsonschema
        jsonschema.validate(m, json.load(open("/root/.vp/MANIFEST.schema.json")))
        print("MANIFEST valid;", len(checks), "checks,", len(m["not_applicable"]), "not applicable")
    except ImportError:
        print("jsonschema not available; written without validation")

if __name__ == "__main__":
    main()
