#!/bin/bash
# seed_verify.sh <slot> <NN> <a|b> <cargo test args for the demo...>
# Confirms, in a scratch worktree of /repo's HEAD, that an independently written change
#  (1) applies, (2) its demonstration passes without it, (3) fails with it,
#  (4) the repository's pinned suite still passes with it.
# Result line: "SEED Cnn-v demo_clean=pass demo_patched=fail baseline=OK" (anything else = rejected)
slot=$1; NN=$2; V=$3; shift 3
W=/tmp/vw$slot/repo; export CARGO_TARGET_DIR=/tmp/vw$slot/target; export CARGO_NET_OFFLINE=true
src=/tmp/m$NN/out/$V
mkdir -p /tmp/vw$slot
[ -d $W ] || git -C /repo worktree add --detach $W HEAD >/dev/null 2>&1
git -C $W checkout -q --detach $(git -C /repo rev-parse HEAD) 2>/dev/null
git -C $W checkout -- . ; git -C $W clean -fdq
cd $W || exit 2
r1=na; r2=na; r3=na
if ! git apply --check $src/patch.diff 2>/dev/null; then echo "SEED C$NN-$V patch does not apply"; exit 1; fi
if [ -f $src/demo.diff ]; then
  git apply $src/demo.diff || { echo "SEED C$NN-$V demo does not apply"; exit 1; }
  if cargo test --offline "$@" >/tmp/vw$slot/demo_clean.log 2>&1; then r1=pass; else r1=FAIL; fi
  git apply $src/patch.diff
  if cargo test --offline "$@" >/tmp/vw$slot/demo_patched.log 2>&1; then r2=PASS; else r2=fail; fi
  git checkout -- . ; git clean -fdq
fi
git apply $src/patch.diff
mkdir -p $CARGO_TARGET_DIR; rm -rf $W/target; ln -sfn $CARGO_TARGET_DIR $W/target
if /verif/baseline.sh $W >/tmp/vw$slot/baseline.log 2>&1; then r3=OK; else r3=REGRESSION; fi
rm -f $W/target
git checkout -- . ; git clean -fdq
echo "SEED C$NN-$V demo_clean=$r1 demo_patched=$r2 baseline=$r3 cmd='cargo test --offline $*'"
