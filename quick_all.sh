#!/bin/bash
# runs every quick tier once and prints one line per check
cd "$(dirname "$0")"
for c in C01 C02 C03 C04 C05 C06 C07 C08 C09 C10 C11 C12 C13 C14 C15 C16 C17 C18 C19 C20; do
  s=$(date +%s); out=$(./check $c 2>&1); rc=$?
  echo "QUICK $c exit=$rc $(( $(date +%s) - s ))s :: $(echo "$out" | tail -1 | cut -c1-200)"
  echo "$out" | grep -E "^(VIOLATION|MACHINERY)" | cut -c1-400 | head -5
done
