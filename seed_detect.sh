#!/bin/bash
# seed_detect.sh <NN> <a|b> <tier> <check ids...>: applies the change to /repo's working tree, runs the
# checks, reverts. Prints one line per check.
NN=$1; V=$2; tier=$3; shift 3
cd /verif
if [ -n "$(git -C /repo status --porcelain)" ]; then echo "/repo not clean"; exit 2; fi
git -C /repo apply /tmp/m$NN/out/$V/patch.diff || { echo "DETECT C$NN-$V patch does not apply to /repo"; exit 1; }
for c in "$@"; do
  out=$(./check $c --tier $tier 2>&1); rc=$?
  sig=$(echo "$out" | grep -m3 'signature=' | sed 's/.*signature=//' | cut -c1-110 | tr '\n' ';')
  echo "DETECT C$NN-$V check=$c tier=$tier exit=$rc $(echo "$out" | tail -1 | cut -c1-90) :: $sig"
done
git -C /repo checkout -- . ; git -C /repo clean -fdq
