//! C13 (dispatcher part) — E3: explicit-state search of the real
//! `NativeFileStore::process_request` against a reference model.
//!
//! State: the directory tree below the filestore root, `BTreeMap<path, File(bytes) | Dir>`; the
//! key of a state is the *observed* tree (read back from disk), so anything the implementation
//! does to the tree is a state of its own. Initial states: every consistent tree over the
//! namespace {f1, f2 (files, content "a"/"b"), d1, d2 (directories), d1/f3 (file in d1)} = 72.
//! Alphabet: 9 actions x first name x second name over namespace + {`nope`, ``} = 441 requests.
//! BFS to depth D (quick 2, thorough 3): every request is executed in every state of depth < D
//! on a tree re-materialised on tmpfs; status, echoed names and the whole resulting tree are
//! compared with the reference, which returns the *set* of acceptable outcomes (one element where
//! the property statement and the repository's own tests pin the behaviour down, several where
//! they are silent — those transitions are counted under `unconstrained_cases`, never flagged).
use crate::common::*;
use cfdp_core::filestore::{FileStore, NativeFileStore};
use cfdp_core::pdu::*;
use rayon::prelude::*;
use serde_json::{json, Value};
use std::collections::{BTreeMap, HashMap};
use std::fs;
use std::path::{Path, PathBuf};

#[derive(Clone, PartialEq, Eq, Hash, PartialOrd, Ord, Debug)]
enum Node {
    Dir,
    File(Vec<u8>),
}
type Tree = BTreeMap<String, Node>;
/// None = the root directory itself no longer exists
type State = Option<Tree>;

const NAMES: [&str; 7] = ["f1", "f2", "d1", "d1/f3", "d2", "nope", ""];
const ACTIONS: [FileStoreAction; 9] = [
    FileStoreAction::CreateFile,
    FileStoreAction::DeleteFile,
    FileStoreAction::RenameFile,
    FileStoreAction::AppendFile,
    FileStoreAction::ReplaceFile,
    FileStoreAction::CreateDirectory,
    FileStoreAction::RemoveDirectory,
    FileStoreAction::DenyFile,
    FileStoreAction::DenyDirectory,
];
/// request = (action index, first name index, second name index)
type Req = (u8, u8, u8);

fn show_tree(t: &State) -> String {
    match t {
        None => "<root removed>".into(),
        Some(t) if t.is_empty() => "{}".into(),
        Some(t) => format!(
            "{{{}}}",
            t.iter().map(|(k, v)| match v { Node::Dir => format!("{}/", k), Node::File(b) => format!("{}={:?}", k, String::from_utf8_lossy(b)) }).collect::<Vec<_>>().join(" ")
        ),
    }
}
fn tree_json(t: &Tree) -> Value {
    Value::Object(t.iter().map(|(k, v)| (k.clone(), match v { Node::Dir => Value::Null, Node::File(b) => json!(String::from_utf8_lossy(b)) })).collect())
}
fn tree_from_json(v: &Value) -> Tree {
    v.as_object().unwrap().iter().map(|(k, v)| (k.clone(), match v { Value::Null => Node::Dir, s => Node::File(s.as_str().unwrap().as_bytes().to_vec()) })).collect()
}
fn show_req(r: Req) -> String {
    format!("{:?}({:?}, {:?})", ACTIONS[r.0 as usize], NAMES[r.1 as usize], NAMES[r.2 as usize])
}

fn initial_states() -> Vec<Tree> {
    let mut out = vec![];
    let file_opts: [Option<&[u8]>; 3] = [None, Some(b"a"), Some(b"b")];
    for f1 in file_opts {
        for f2 in file_opts {
            for d1 in [false, true] {
                for f3 in file_opts {
                    if f3.is_some() && !d1 {
                        continue; // not a consistent tree
                    }
                    for d2 in [false, true] {
                        let mut t = Tree::new();
                        if let Some(c) = f1 {
                            t.insert("f1".into(), Node::File(c.to_vec()));
                        }
                        if let Some(c) = f2 {
                            t.insert("f2".into(), Node::File(c.to_vec()));
                        }
                        if d1 {
                            t.insert("d1".into(), Node::Dir);
                        }
                        if let Some(c) = f3 {
                            t.insert("d1/f3".into(), Node::File(c.to_vec()));
                        }
                        if d2 {
                            t.insert("d2".into(), Node::Dir);
                        }
                        out.push(t);
                    }
                }
            }
        }
    }
    out
}

// ---------------------------------------------------------------- reference model

#[derive(Clone, Copy, PartialEq, Eq, Debug)]
enum Kind {
    Root,
    File,
    Dir,
    /// does not exist, the parent is a directory
    Absent,
    /// does not exist and cannot be created: the parent is missing or is a file
    NoParent,
}
fn kind(t: &Tree, n: &str) -> Kind {
    if n.is_empty() {
        return Kind::Root;
    }
    match t.get(n) {
        Some(Node::File(_)) => Kind::File,
        Some(Node::Dir) => Kind::Dir,
        None => match n.rsplit_once('/') {
            None => Kind::Absent,
            Some((parent, _)) => match t.get(parent) {
                Some(Node::Dir) => Kind::Absent,
                _ => Kind::NoParent,
            },
        },
    }
}
fn without_subtree(t: &Tree, n: &str) -> Tree {
    let pre = format!("{}/", n);
    t.iter().filter(|(k, _)| k.as_str() != n && !k.starts_with(&pre)).map(|(k, v)| (k.clone(), v.clone())).collect()
}
fn content(t: &Tree, n: &str) -> Vec<u8> {
    match t.get(n) {
        Some(Node::File(b)) => b.clone(),
        _ => unreachable!(),
    }
}

/// the (single-level) parent of `n` is simply missing — not a file in the way
fn parent_absent(t: &Tree, n: &str) -> bool {
    matches!(n.rsplit_once('/'), Some((p, _)) if !t.contains_key(p))
}
fn with_parents(t: &Tree, n: &str, node: Node) -> State {
    let mut x = t.clone();
    if let Some((p, _)) = n.rsplit_once('/') {
        x.insert(p.to_string(), Node::Dir);
    }
    x.insert(n.to_string(), node);
    Some(x)
}

struct Expect {
    /// acceptable (status, resulting state) pairs
    outcomes: Vec<(FileStoreStatus, State)>,
    /// Some(description) when statement and tests leave the behaviour open
    unconstrained: Option<&'static str>,
}

/// CFDP semantics as the property statement and the repository's `process_request` /
/// `process_failures` tests pin them down. A failing request leaves the tree as it is.
fn model(t: &Tree, r: Req) -> Expect {
    use FileStoreStatus as S;
    let (a, b) = (NAMES[r.1 as usize], NAMES[r.2 as usize]);
    let (ka, kb) = (kind(t, a), kind(t, b));
    let same = Some(t.clone());
    let one = |s: S, st: State| Expect { outcomes: vec![(s, st)], unconstrained: None };
    let open = |why: &'static str, v: Vec<(S, State)>| Expect { outcomes: v, unconstrained: Some(why) };
    let with = |k: &str, n: Node| {
        let mut x = t.clone();
        x.insert(k.to_string(), n);
        Some(x)
    };
    match ACTIONS[r.0 as usize] {
        FileStoreAction::CreateFile => match ka {
            Kind::Absent => one(S::CreateFile(CreateFileStatus::Successful), with(a, Node::File(vec![]))),
            Kind::NoParent if parent_absent(t, a) => open(
                "create file/directory below a missing directory: refused without change, or created together with the missing parent",
                vec![(S::CreateFile(CreateFileStatus::NotAllowed), same), (S::CreateFile(CreateFileStatus::Successful), with_parents(t, a, Node::File(vec![])))],
            ),
            _ => one(S::CreateFile(CreateFileStatus::NotAllowed), same), // tests: create "dir1" -> NotAllowed
        },
        FileStoreAction::DeleteFile => match ka {
            Kind::File => one(S::DeleteFile(DeleteFileStatus::Successful), Some(without_subtree(t, a))),
            _ => one(S::DeleteFile(DeleteFileStatus::FileDoesNotExist), same), // tests: missing and "dir1"
        },
        FileStoreAction::RenameFile => match (ka, kb) {
            (Kind::File, Kind::Absent) => {
                let mut x = without_subtree(t, a);
                x.insert(b.to_string(), Node::File(content(t, a)));
                one(S::RenameFile(RenameStatus::Successful), Some(x))
            }
            (Kind::File, Kind::File) => one(S::RenameFile(RenameStatus::NewFilenameAlreadyExists), same),
            (Kind::File, Kind::NoParent) => one(S::RenameFile(RenameStatus::RenameNotAllowed), same),
            (Kind::File, _) => open(
                "rename onto an existing directory (or the empty name): must fail and change nothing, NewFilenameAlreadyExists or RenameNotAllowed",
                vec![(S::RenameFile(RenameStatus::NewFilenameAlreadyExists), same.clone()), (S::RenameFile(RenameStatus::RenameNotAllowed), same)],
            ),
            (_, Kind::File) => open(
                "rename with the old name missing and the new name existing: either failure status",
                vec![(S::RenameFile(RenameStatus::OldFilenameDoesNotExist), same.clone()), (S::RenameFile(RenameStatus::NewFilenameAlreadyExists), same)],
            ),
            _ => one(S::RenameFile(RenameStatus::OldFilenameDoesNotExist), same),
        },
        FileStoreAction::AppendFile | FileStoreAction::ReplaceFile => {
            let append = ACTIONS[r.0 as usize] == FileStoreAction::AppendFile;
            let st = |i: u8| match (append, i) {
                (true, 0) => S::AppendFile(AppendStatus::Successful),
                (true, 1) => S::AppendFile(AppendStatus::Filename1DoesNotExist),
                (true, 2) => S::AppendFile(AppendStatus::Filename2DoesNotExist),
                (true, _) => S::AppendFile(AppendStatus::NotAllowed),
                (false, 0) => S::ReplaceFile(ReplaceStatus::Successful),
                (false, 1) => S::ReplaceFile(ReplaceStatus::Filename1DoesNotExist),
                (false, 2) => S::ReplaceFile(ReplaceStatus::Filename2DoesNotExist),
                (false, _) => S::ReplaceFile(ReplaceStatus::NotAllowed),
            };
            match (ka, kb) {
                (Kind::File, Kind::File) if a == b => {
                    let mut doubled = content(t, a);
                    doubled.extend(content(t, a));
                    let result = if append { with(a, Node::File(doubled)) } else { same.clone() };
                    open("append/replace of a file with itself: success with the obvious result, or NotAllowed without change", vec![(st(0), result), (st(3), same)])
                }
                (Kind::File, Kind::File) => {
                    let mut c = if append { content(t, a) } else { vec![] };
                    c.extend(content(t, b));
                    one(st(0), with(a, Node::File(c)))
                }
                (Kind::File, _) => one(st(2), same),
                (_, Kind::File) => one(st(1), same),
                _ => open("append/replace with both names missing: either failure status", vec![(st(1), same.clone()), (st(2), same)]),
            }
        }
        FileStoreAction::CreateDirectory => match ka {
            Kind::Absent => one(S::CreateDirectory(CreateDirectoryStatus::Successful), with(a, Node::Dir)),
            Kind::NoParent if parent_absent(t, a) => open(
                "create file/directory below a missing directory: refused without change, or created together with the missing parent",
                vec![(S::CreateDirectory(CreateDirectoryStatus::DirectoryCannotBeCreated), same), (S::CreateDirectory(CreateDirectoryStatus::Successful), with_parents(t, a, Node::Dir))],
            ),
            _ => one(S::CreateDirectory(CreateDirectoryStatus::DirectoryCannotBeCreated), same), // tests: "."
        },
        FileStoreAction::RemoveDirectory | FileStoreAction::DenyDirectory => {
            let remove = ACTIONS[r.0 as usize] == FileStoreAction::RemoveDirectory;
            let ok = if remove { S::RemoveDirectory(RemoveDirectoryStatus::Successful) } else { S::DenyDirectory(DenyStatus::Successful) };
            let refused = if remove { S::RemoveDirectory(RemoveDirectoryStatus::DeleteNotAllowed) } else { S::DenyDirectory(DenyStatus::NotAllowed) };
            let missing = if remove { S::RemoveDirectory(RemoveDirectoryStatus::DirectoryDoesNotExist) } else { S::DenyDirectory(DenyStatus::NotAllowed) };
            match ka {
                Kind::Dir => {
                    let gone = Some(without_subtree(t, a));
                    let pre = format!("{}/", a);
                    if t.keys().any(|k| k.starts_with(&pre)) {
                        open("remove/deny of a non-empty directory: removed with its contents, or refused without change", vec![(ok, gone), (refused, same)])
                    } else {
                        one(ok, gone)
                    }
                }
                Kind::Root => open(
                    "remove/deny directory with the empty name (the filestore root itself): success emptying or removing the root, or any failure without change",
                    vec![(ok, None), (ok, Some(Tree::new())), (refused, same.clone()), (missing, same)],
                ),
                _ => one(missing, same), // tests: "not_a_dir" -> DirectoryDoesNotExist / NotAllowed
            }
        }
        FileStoreAction::DenyFile => match ka {
            Kind::File => one(S::DenyFile(DenyStatus::Successful), Some(without_subtree(t, a))),
            _ => one(S::DenyFile(DenyStatus::NotAllowed), same), // tests: "not_a.file" -> NotAllowed
        },
    }
}

// ---------------------------------------------------------------- the real thing

fn materialise(root: &Path, t: &Tree) {
    let _ = fs::remove_dir_all(root);
    fs::create_dir_all(root).expect("scratch");
    for (k, v) in t {
        // BTreeMap order puts a directory before its children
        match v {
            Node::Dir => fs::create_dir(root.join(k)).expect("scratch dir"),
            Node::File(b) => fs::write(root.join(k), b).expect("scratch file"),
        }
    }
}
fn snapshot(root: &Path) -> State {
    fn walk(dir: &Path, rel: &str, out: &mut Tree) {
        let mut names: Vec<_> = fs::read_dir(dir).expect("scratch read_dir").flatten().collect();
        names.sort_by_key(|e| e.file_name());
        for e in names {
            let name = e.file_name().to_string_lossy().to_string();
            let r = if rel.is_empty() { name } else { format!("{}/{}", rel, name) };
            if e.file_type().map(|t| t.is_dir()).unwrap_or(false) {
                out.insert(r.clone(), Node::Dir);
                walk(&e.path(), &r, out);
            } else {
                out.insert(r, Node::File(fs::read(e.path()).unwrap_or_default()));
            }
        }
    }
    if !root.is_dir() {
        return None;
    }
    let mut t = Tree::new();
    walk(root, "", &mut t);
    Some(t)
}

struct Step {
    got_status: Result<FileStoreStatus, String>,
    got_state: State,
    /// None = conforms; Some((clause, signature, detail))
    deviation: Option<(String, String, String)>,
    unconstrained: Option<&'static str>,
}

/// execute one request on the tree currently materialised at `root` (which equals `t`)
fn step(root: &Path, t: &Tree, r: Req) -> Step {
    let exp = model(t, r);
    let (a, b) = (NAMES[r.1 as usize], NAMES[r.2 as usize]);
    let req = FileStoreRequest { action_code: ACTIONS[r.0 as usize].clone(), first_filename: a.into(), second_filename: b.into() };
    let fs_ = NativeFileStore::new(root.to_str().expect("utf8 scratch"));
    let resp = catch(|| fs_.process_request(&req));
    let got_state = snapshot(root);
    let (ka, kb) = (kind(t, a), kind(t, b));
    // the second name only matters to the two-name actions
    let two = matches!(ACTIONS[r.0 as usize], FileStoreAction::RenameFile | FileStoreAction::AppendFile | FileStoreAction::ReplaceFile);
    let scen = if two {
        format!("{:?}|n1={:?},n2={:?}{}", ACTIONS[r.0 as usize], ka, kb, if a == b { ",same-name" } else { "" })
    } else {
        format!("{:?}|n1={:?}", ACTIONS[r.0 as usize], ka)
    };
    let wants = exp.outcomes.iter().map(|(s, st)| format!("{:?} with tree {}", s, show_tree(st))).collect::<Vec<_>>().join("  or  ");
    let ctx = format!("tree {} request {}", show_tree(&Some(t.clone())), show_req(r));
    let deviation = match &resp {
        Err(p) => Some(("panic".to_string(), format!("panic|{}", scen), format!("{}: process_request panicked: {}", ctx, p))),
        Ok(resp) => {
            let st = resp.action_and_status;
            if resp.first_filename != req.first_filename || resp.second_filename != req.second_filename {
                Some(("echo".to_string(), format!("echo|{:?}", ACTIONS[r.0 as usize]), format!("{}: response names ({:?}, {:?}) are not those of the request", ctx, resp.first_filename, resp.second_filename)))
            } else if exp.outcomes.iter().any(|(s, x)| *s == st && *x == got_state) {
                None
            } else if st.is_fail() && got_state != Some(t.clone()) {
                Some((
                    "failed-request-changes-nothing".to_string(),
                    format!("failed-request-changed-tree|{}|got={:?}", scen, st),
                    format!("{}: reported {:?} but the tree became {}", ctx, st, show_tree(&got_state)),
                ))
            } else if exp.outcomes.iter().any(|(s, _)| *s == st) {
                Some((
                    "effect".to_string(),
                    format!("wrong-effect|{}|status={:?}", scen, st),
                    format!("{}: reported {:?}, tree became {}; acceptable: {}", ctx, st, show_tree(&got_state), wants),
                ))
            } else {
                let want_s = exp.outcomes.iter().map(|(s, _)| format!("{:?}", s)).collect::<Vec<_>>();
                let mut want_s2 = want_s.clone();
                want_s2.dedup();
                Some((
                    "status".to_string(),
                    format!("wrong-status|{}|got={:?}|want={}", scen, st, want_s2.join("/")),
                    format!("{}: reported {:?}, tree became {}; acceptable: {}", ctx, st, show_tree(&got_state), wants),
                ))
            }
        }
    };
    Step { got_status: resp.map(|r| r.action_and_status), got_state, deviation, unconstrained: exp.unconstrained }
}

fn alphabet() -> Vec<Req> {
    let mut v = vec![];
    for a in 0..ACTIONS.len() as u8 {
        for n1 in 0..NAMES.len() as u8 {
            for n2 in 0..NAMES.len() as u8 {
                v.push((a, n1, n2));
            }
        }
    }
    v
}

fn replay_json(init: &Tree, ops: &[Req]) -> Value {
    json!({"engine": "seq-fsreq", "init": tree_json(init),
           "ops": ops.iter().map(|r| json!([format!("{:?}", ACTIONS[r.0 as usize]), NAMES[r.1 as usize], NAMES[r.2 as usize]])).collect::<Vec<_>>()})
}

fn replay(path: &str, rep: &mut Report) {
    let v: Value = serde_json::from_str(&fs::read_to_string(path).expect("replay file")).expect("replay json");
    let c = &v["case"];
    let init = tree_from_json(&c["init"]);
    let ops: Vec<Req> = c["ops"]
        .as_array()
        .unwrap()
        .iter()
        .map(|o| {
            let a = ACTIONS.iter().position(|x| format!("{:?}", x) == o[0].as_str().unwrap()).expect("action") as u8;
            let n = |i: usize| NAMES.iter().position(|x| Some(*x) == o[i].as_str()).expect("name") as u8;
            (a, n(1), n(2))
        })
        .collect();
    let root = scratch_base().join("c13").join("replay").join("root");
    materialise(&root, &init);
    let mut cur = init.clone();
    println!("initial tree {}", show_tree(&Some(cur.clone())));
    for (i, &r) in ops.iter().enumerate() {
        let s = step(&root, &cur, r);
        println!("step {}: {} -> {:?}, tree {}", i + 1, show_req(r), s.got_status, show_tree(&s.got_state));
        if let Some((clause, sig, detail)) = s.deviation {
            println!("  deviates: {}", detail);
            rep.violations.push(Violation { clause, signature: sig, detail, replay: c.clone() });
            break;
        }
        match s.got_state {
            Some(t) => cur = t,
            None => break,
        }
    }
    if rep.violations.is_empty() {
        println!("case passes");
    }
    rep.coverage = json!({"states": 1, "transitions": ops.len(), "traces_validated_against_impl": ops.len(), "samples": [c]});
    let _ = fs::remove_dir_all(scratch_base().join("c13"));
}

/// The dispatcher part of C13; self-contained. Fills `rep.coverage["dispatcher"]` and the
/// top-level counters required for the model_checking level.
pub fn run_dispatcher(args: &Args, rep: &mut Report) {
    let depth: usize = args.tier.pick(2, 3);
    let alpha = alphabet();
    let base: PathBuf = scratch_base().join("c13");
    // state -> (initial tree index, shortest request list)
    let inits = initial_states();
    let mut seen: HashMap<State, (usize, Vec<Req>)> = HashMap::new();
    let mut frontier: Vec<Tree> = vec![];
    for (i, t) in inits.iter().enumerate() {
        if seen.insert(Some(t.clone()), (i, vec![])).is_none() {
            frontier.push(t.clone());
        }
    }
    let (mut transitions, mut expanded) = (0u64, 0u64);
    let mut per_level = vec![];
    let mut status_hist: BTreeMap<String, u64> = BTreeMap::new();
    let mut unconstrained: BTreeMap<&'static str, u64> = BTreeMap::new();
    let mut first_dev: BTreeMap<String, (String, String, Value)> = BTreeMap::new();
    let mut dev_count: BTreeMap<String, u64> = BTreeMap::new();
    let mut samples: Vec<Value> = vec![];
    let mut root_removed = 0u64;
    for level in 0..depth {
        let nchunks = rayon::current_num_threads().max(1) * 4;
        let per = ((frontier.len() + nchunks - 1) / nchunks).max(1);
        // per state, in frontier order: the outcome of every request in alphabet order
        let results: Vec<Vec<Step>> = frontier
            .par_chunks(per)
            .enumerate()
            .flat_map(|(k, chunk)| {
                let root = base.join(format!("l{}w{}", level, k)).join("root");
                let mut out = vec![];
                for t in chunk {
                    materialise(&root, t);
                    let mut steps = Vec::with_capacity(alpha.len());
                    for &r in &alpha {
                        let s = step(&root, t, r);
                        if s.got_state.as_ref() != Some(t) {
                            materialise(&root, t);
                        }
                        steps.push(s);
                    }
                    out.push(steps);
                }
                let _ = fs::remove_dir_all(root.parent().unwrap());
                out
            })
            .collect();
        // merge sequentially in (state, request) order: deterministic
        let mut next: Vec<Tree> = vec![];
        for (t, steps) in frontier.iter().zip(results) {
            expanded += 1;
            let (init_idx, path) = seen.get(&Some(t.clone())).cloned().unwrap();
            for (&r, s) in alpha.iter().zip(steps) {
                transitions += 1;
                *status_hist.entry(match &s.got_status { Ok(st) => format!("{:?}", st), Err(_) => "panic".into() }).or_default() += 1;
                if let Some(u) = s.unconstrained {
                    *unconstrained.entry(u).or_default() += 1;
                }
                let mut ops = path.clone();
                ops.push(r);
                if samples.len() < 4 && level + 1 == depth && s.got_state.as_ref() != Some(t) && transitions % 40009 == 0 {
                    samples.push(json!({"init": show_tree(&Some(inits[init_idx].clone())), "requests": ops.iter().map(|&o| show_req(o)).collect::<Vec<_>>(),
                        "last_status": format!("{:?}", s.got_status), "tree": show_tree(&s.got_state)}));
                }
                if let Some((clause, sig, detail)) = s.deviation {
                    *dev_count.entry(sig.clone()).or_default() += 1;
                    first_dev.entry(sig).or_insert_with(|| (clause, format!("{} (reached from initial tree {} by {:?})", detail, show_tree(&Some(inits[init_idx].clone())), path.iter().map(|&o| show_req(o)).collect::<Vec<_>>()), replay_json(&inits[init_idx], &ops)));
                    continue; // do not explore beyond a deviating transition
                }
                if s.got_state.is_none() {
                    root_removed += 1;
                }
                if !seen.contains_key(&s.got_state) {
                    seen.insert(s.got_state.clone(), (init_idx, ops));
                    if let Some(nt) = s.got_state {
                        next.push(nt); // a removed root is a terminal state
                    }
                }
            }
        }
        per_level.push(json!({"depth": level, "states_expanded": frontier.len(), "new_states": next.len()}));
        frontier = next;
    }
    for (sig, (clause, detail, replay)) in first_dev {
        let n = dev_count[&sig];
        rep.violations.push(Violation { clause, signature: sig, detail: format!("{} ({} deviating transitions in this class)", detail, n), replay });
    }
    // vacuity guard: every action both succeeded and failed somewhere
    for a in ACTIONS.iter() {
        let name = format!("{:?}", a);
        let ok = status_hist.iter().any(|(k, v)| k.starts_with(&format!("{}(", name)) && k.contains("Successful") && *v > 0);
        let bad = status_hist.iter().any(|(k, v)| k.starts_with(&format!("{}(", name)) && !k.contains("Successful") && *v > 0);
        if !(ok && bad) && rep.violations.is_empty() {
            rep.machinery_errors.push(format!("vacuity: action {} never {} in the explored space", name, if ok { "failed" } else { "succeeded" }));
        }
    }
    let unconstrained_list: Vec<Value> = unconstrained.iter().map(|(k, v)| json!({"case": k, "transitions": v})).collect();
    let disp = json!({
        "states": seen.len(), "states_expanded": expanded, "transitions": transitions,
        "traces_validated_against_impl": transitions, "max_depth": depth,
        "initial_states": inits.len(), "alphabet": alpha.len(), "levels": per_level,
        "status_histogram": status_hist, "transitions_that_removed_the_root": root_removed,
        "deviating_transitions_per_class": dev_count,
    });
    let cov = rep.coverage.as_object_mut().expect("coverage object");
    cov.insert("dispatcher".into(), disp);
    cov.insert("states".into(), json!(seen.len()));
    cov.insert("transitions".into(), json!(transitions));
    cov.insert("traces_validated_against_impl".into(), json!(transitions));
    cov.insert("max_depth".into(), json!(depth));
    cov.insert("exhaustive".into(), json!(true));
    cov.insert("samples".into(), json!(samples));
    cov.insert("unconstrained_cases".into(), json!(unconstrained_list));
    cov.insert(
        "explanation".into(),
        json!("BFS from all 72 consistent trees over the namespace; in every state of depth < max_depth all 441 requests are executed by the real NativeFileStore::process_request on a re-materialised tree and compared (status, echoed names, whole resulting tree) with the reference model; the state key is the tree read back from disk"),
    );
    rep.assumptions.extend([
        "the namespace {f1,f2,d1,d1/f3,d2,nope,''} and contents built from \"a\"/\"b\" stand for arbitrary names and contents; one level of nesting stands for deeper trees".to_string(),
        "the filesystem is a local tmpfs without permission failures, so the *NotAllowed statuses that map OS errors are reachable only through missing parents and type clashes".to_string(),
        "behaviour the statement and the repository's tests leave open (listed under unconstrained_cases) is accepted in every reasonable variant".to_string(),
    ]);
    let _ = fs::remove_dir_all(&base);
}

pub fn run(args: &Args) -> Report {
    let mut rep = Report::new("model_checking");
    if let Some(p) = &args.replay {
        replay(p, &mut rep);
        return rep;
    }
    run_dispatcher(args, &mut rep);
    rep
}
