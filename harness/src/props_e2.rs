//! Drivers of the E2 (daemon-dbx) checks: conformance of E1's loop model against the real daemon
//! loops, and C11.
use crate::common::*;
use crate::daemon_world::*;
use crate::world::*;
use serde_json::json;

/// deviation bound of the real-daemon schedules. Both registered tiers use 2; the thorough tier
/// widens the scenario set instead. The 3-deviation tier exists (VERIF_E2_DEV=3) and was run: what
/// it reported were artefacts of the harness — timer ambiguities inside the twin's lag (now
/// pruned) and a receiver started by a stray PDU whose own, unmodelled PDUs occupy a transport
/// slot that no `Take` of the model empties — the second kind is not resolved, so that depth is
/// not part of a registered command (DESIGN.md section 9).
fn deep(_tier: Tier) -> usize {
    std::env::var("VERIF_E2_DEV").ok().and_then(|s| s.parse().ok()).unwrap_or(2)
}

fn cfg_base(name: &str) -> Scenario {
    let mut c = Scenario::base(name);
    c.max_count = 2;
    c
}

pub fn single(name: &str, cfg: Scenario, ack: bool, size: u64, dev: usize) -> DScn {
    DScn {
        name: name.to_string(),
        cfg,
        daemons: 2,
        txns: vec![TxnSpec { from: 0, to: 1, ack, size }],
        dev_bound: dev,
        drops: true,
        dups: true,
        overtake: true,
        delay: true,
        user: vec![],
        strays: false,
        horizon: 300,
        seq_start: None,
        bursts: false,
        default_cfg: None,
        src_symlink: false,
        empty_dst: false,
    }
}

/// single-transaction scenarios: every schedule with <= `dev` deviations must agree with the twin
pub fn conformance_scenarios(tier: Tier) -> Vec<DScn> {
    let dev = deep(tier);
    let mut v = vec![];
    v.push(single("conf ack size=33", cfg_base("conf"), true, 33, dev));
    let mut u = cfg_base("conf");
    u.ack = false;
    v.push(single("conf unack size=17", u.clone(), false, 17, dev));
    u.closure = true;
    v.push(single("conf unack+closure size=17", u, false, 17, dev));
    let mut i = cfg_base("conf");
    i.nak_immediate = true;
    i.nak_delay_s = 5;
    v.push(single("conf ack nak=imm5 size=33", i, true, 33, dev));
    // user primitives through the daemon's command channel (the select! guard is what gates a
    // suspended transaction)
    let mut s = single("conf ack size=33 + suspend/resume@S cancel@R", cfg_base("conf"), true, 33, dev);
    s.user = vec![(0, Side::S, UserOp::Suspend), (0, Side::S, UserOp::Resume), (0, Side::R, UserOp::Cancel), (0, Side::S, UserOp::PromptKeepAlive), (0, Side::S, UserOp::Report)];
    s.dups = false;
    v.push(s);
    let mut s2 = single("conf ack size=17 + suspend/resume@R cancel@S", cfg_base("conf"), true, 17, dev);
    s2.user = vec![(0, Side::R, UserOp::Suspend), (0, Side::R, UserOp::Resume), (0, Side::S, UserOp::Cancel), (0, Side::S, UserOp::PromptNak)];
    s2.dups = false;
    v.push(s2);
    // other codec/checksum configurations drive the same loops through different PDU shapes
    let mut c = cfg_base("conf");
    c.crc = true;
    c.seg = 8;
    v.push(single("conf ack crc seg=8 size=20", c, true, 20, dev.min(2)));
    let mut n = cfg_base("conf");
    n.ack = false;
    n.closure = true;
    n.null_checksum = true;
    v.push(single("conf unack+closure null-checksum size=17", n, false, 17, dev.min(2)));
    // the empty and the one-octet file: with the metadata (and the only segment) lost, the EOF is
    // the first PDU of the transaction to reach the destination daemon
    v.push(single("conf ack size=0", cfg_base("conf"), true, 0, 2));
    v.push(single("conf ack size=1", cfg_base("conf"), true, 1, 2));
    if tier == Tier::Thorough {
        // positive-ack / nak / inactivity limits handled by Abandon instead of Cancel
        // (Ignore is left to E1: an ignored limit repeats for ever and no schedule ends)
        for (a, nm) in [(3u8, "abandon")] {
            let mut h = cfg_base("conf");
            h.handlers = vec![(1, a), (7, a), (8, a)];
            h.max_count = 1;
            let mut s = single(&format!("conf ack limits->{} size=17", nm), h, true, 17, 2);
            s.dups = false;
            s.overtake = false;
            v.push(s);
        }
        let mut e = cfg_base("conf");
        e.nak_immediate = true;
        v.push(single("conf ack nak=imm0 size=33", e, true, 33, 2));
    }
    v
}

pub struct Conf {
    pub pruned: u64,
    pub schedules: u64,
    pub agreed: u64,
    pub steps: u64,
    pub divergences: Vec<String>,
    pub incomplete: u64,
    pub per: Vec<serde_json::Value>,
    /// direct (twin-independent) oracles of the schedules
    pub violations: Vec<Violation>,
}

pub fn run_conformance(scns: Vec<DScn>) -> Conf {
    let mut c = Conf { pruned: 0, schedules: 0, agreed: 0, steps: 0, divergences: vec![], incomplete: 0, per: vec![], violations: vec![] };
    for s in scns {
        let r = explore_dbx(&s);
        c.schedules += r.schedules;
        c.agreed += r.agreed;
        c.steps += r.steps_validated;
        c.incomplete += r.incomplete;
        c.pruned += r.pruned_ambiguous;
        c.per.push(json!({"scenario": s.name, "schedules": r.schedules, "agreed_with_twin": r.agreed, "deviation_bound": r.bound, "incomplete": r.incomplete, "pruned_ambiguous_timers": r.pruned_ambiguous}));
        c.divergences.extend(r.divergences);
        c.violations.extend(r.violations);
    }
    c
}

/// a small conformance batch for the E1 checks' `traces_validated_against_impl`
pub fn quick_conformance(ack: bool, closure: bool) -> Conf {
    run_conformance(quick_conformance_scenarios(ack, closure))
}

pub fn quick_conformance_scenarios(ack: bool, closure: bool) -> Vec<DScn> {
    let mut cfg = cfg_base("conf");
    cfg.ack = ack;
    cfg.closure = closure;
    let mut v = vec![single(&format!("conf {} size=17", cfg.class()), cfg.clone(), ack, 17, 1)];
    if ack {
        // the empty file: with the Metadata PDU lost the EOF is the first PDU to reach the
        // destination daemon (its routing, not the transaction, decides what happens then)
        v.push(single(&format!("conf {} size=0", cfg.class()), cfg, ack, 0, 2));
    }
    {
        // filestore requests in the Put: the daemon, not the transaction, puts them into the metadata
        let mut rq = cfg_base("conf");
        rq.ack = ack;
        rq.closure = closure;
        rq.requests = vec![(0, "new1".into(), "".into()), (3, "log1".into(), "log2".into()), (3, "log1".into(), "log2".into()), (2, "log2".into(), "log3".into())];
        rq.pre_files = vec![("log1".into(), "A".into()), ("log2".into(), "B".into())];
        v.push(single(&format!("conf {} size=17 filestore requests [create,append,append,rename]", rq.class()), rq, ack, 17, 1));
    }
    if ack && !closure {
        // the source name is a symbolic link: the daemon derives the sizes it announces from it
        let mut l = single(&format!("conf {} size=17 source is a symbolic link", cfg_base("conf").class()), cfg_base("conf"), true, 17, 0);
        l.src_symlink = true;
        v.push(l);
    }
    v
}

/// every real-daemon scenario any check runs (replay files name their scenario)
pub fn all_scenarios() -> Vec<DScn> {
    let mut v = c11_scenarios(Tier::Thorough);
    v.extend(conformance_scenarios(Tier::Thorough));
    for (a, c) in [(true, false), (false, false), (false, true), (true, true)] {
        v.extend(quick_conformance_scenarios(a, c));
    }
    for id in ["C19", "C17", "C07", "C10", "C04"] {
        v.extend(extra_conformance(id, Tier::Thorough));
    }
    v
}

/// replay of a recorded real-daemon schedule (any check)
pub fn replay_dbx(v: &serde_json::Value) -> Report {
    let mut rep = Report::new("model_checking");
    let name = v["case"]["scenario"].as_str().unwrap_or("").to_string();
    let choices: Vec<usize> = serde_json::from_value(v["case"]["choices"].clone()).unwrap_or_default();
    let Some(scn) = all_scenarios().into_iter().find(|s| s.name == name) else {
        rep.machinery_errors.push(format!("the replay file names the scenario {:?}, which no check defines any more", name));
        return rep;
    };
    let r = run_schedule(&scn, &choices);
    for a in &r.acts {
        println!("{}", a);
    }
    println!("left the transaction model: {:?}\nviolations: {:?}", r.divergence, r.violations);
    for (clause, sig, detail) in r.violations {
        rep.violations.push(Violation { clause: clause.clone(), signature: format!("{}|{}|{}", clause, scn.cfg.class(), sig), detail, replay: v["case"].clone() });
    }
    rep.coverage = json!({"states": r.steps.max(1), "transitions": r.steps.max(1), "traces_validated_against_impl": 1, "samples": [r.acts]});
    rep
}

/// property-specific real-daemon batches run by the E1 checks in addition to `quick_conformance`:
/// scenarios in which the daemon's own layer (its task loops, the configuration it hands to a
/// transaction, what it derives from a Put) decides whether the property holds
pub fn extra_conformance(id: &str, tier: Tier) -> Vec<DScn> {
    let dev = deep(tier);
    let mut v = vec![];
    match id {
        "C19" => {
            for side in [Side::S, Side::R] {
                let mut s = single(&format!("conf ack size=17 suspend/resume@{:?}", side), cfg_base("conf"), true, 17, dev);
                s.user = vec![(0, side, UserOp::Suspend), (0, side, UserOp::Resume)];
                s.dups = false;
                s.overtake = false;
                v.push(s);
            }
            // a delayed gap check falling due while the receiver is suspended
            let mut i = cfg_base("conf");
            i.nak_immediate = true;
            i.nak_delay_s = 5;
            let mut s = single("conf ack nak=imm5 size=33 suspend/resume@R", i, true, 33, dev);
            s.user = vec![(0, Side::R, UserOp::Suspend), (0, Side::R, UserOp::Resume)];
            s.dups = false;
            s.overtake = false;
            v.push(s);
        }
        "C17" => {
            // the positive-acknowledgement timeout shorter than the NAK timeout (the usual
            // configuration has it longer): a timer armed with the other timer's value fires early
            let mut t = cfg_base("conf");
            t.t_ack = 40;
            t.t_nak = 70;
            let mut s = single("conf ack size=17 timeouts=(300,40,70)", t, true, 17, dev);
            s.dups = false;
            s.overtake = false;
            v.push(s);
        }
        "C07" => {
            let mut g = cfg_base("conf");
            g.seg = 10;
            let mut s = single("conf ack seg=10 size=25", g, true, 25, 1);
            s.dups = false;
            v.push(s);
            // a Put that names a source but no destination file
            let mut e = single("conf unack size=17 empty destination name", { let mut c = cfg_base("conf"); c.ack = false; c }, false, 17, 0);
            e.empty_dst = true;
            v.push(e);
        }
        "C04" => {
            // the completing PDU arrives many times back to back (more copies than the command
            // queue of the transaction holds)
            for ack in [false, true] {
                let mut c = cfg_base("conf");
                c.ack = ack;
                let mut s = single(&format!("conf {} size=17 + burst", c.class()), c, ack, 17, 1);
                s.bursts = true;
                s.dups = false;
                s.overtake = false;
                s.delay = false;
                v.push(s);
            }
        }
        "C10" => {
            for (ack, side) in [(false, Side::S), (true, Side::S), (true, Side::R)] {
                let mut c = cfg_base("conf");
                c.ack = ack;
                let mut s = single(&format!("conf {} size=33 cancel@{:?}", c.class(), side), c, ack, 33, dev);
                s.user = vec![(0, side, UserOp::Cancel)];
                s.dups = false;
                s.overtake = false;
                s.delay = false;
                v.push(s);
            }
        }
        _ => {}
    }
    v
}

pub fn c11(args: &Args) -> Report {
    let mut rep = Report::new("model_checking");
    if let Some(p) = &args.replay {
        let v: serde_json::Value = serde_json::from_str(&std::fs::read_to_string(p).expect("replay file")).unwrap();
        return replay_dbx(&v);
    }
    // 1. the loop model itself (single transactions): a divergence here is a machinery problem
    let conf = run_conformance(conformance_scenarios(args.tier));
    for d in &conf.divergences {
        rep.machinery_errors.push(format!("MODEL-DIVERGENCE (single transaction): {}", d));
    }
    // (the direct completion oracle of diverged single-transaction schedules belongs to C02 and
    // is reported by that check; here the divergence stays a machinery error)
    // 2. concurrent transactions and strays
    let mut schedules = 0;
    let mut agreed = 0;
    let mut points = 0;
    let mut steps = 0;
    let mut incomplete = conf.incomplete;
    let mut pruned = conf.pruned;
    let mut samples = vec![];
    let mut per = vec![];
    for s in c11_scenarios(args.tier) {
        let r = explore_dbx(&s);
        schedules += r.schedules;
        agreed += r.agreed;
        points += r.choice_points;
        steps += r.steps_validated;
        incomplete += r.incomplete;
        pruned += r.pruned_ambiguous;
        per.push(json!({"scenario": s.name, "schedules": r.schedules, "agreed_with_twins": r.agreed, "choice_points": r.choice_points, "deviation_bound": r.bound, "incomplete": r.incomplete}));
        if let Some(x) = r.sample {
            if samples.len() < 3 {
                samples.push(x);
            }
        }
        rep.violations.extend(r.violations);
        // with the single-transaction conformance clean, a transaction that departs from its twin
        // only in the presence of other transactions or stray PDUs was disturbed by them
        for d in r.divergences {
            if conf.divergences.is_empty() {
                rep.violations.push(Violation {
                    clause: "isolation".into(),
                    signature: format!("isolation|{}", s.name),
                    detail: format!("a transaction behaved differently from its isolated twin: {}", d),
                    replay: json!({"engine": "daemon-dbx", "scenario": s.name, "note": d}),
                });
            }
        }
    }
    if samples.is_empty() {
        samples.push(json!("no schedule completed"));
    }
    rep.coverage = json!({
        "states": points + conf.schedules,
        "transitions": steps + conf.steps,
        "traces_validated_against_impl": agreed + conf.agreed,
        "samples": samples,
        "schedules": schedules + conf.schedules,
        "single_transaction_conformance": {"schedules": conf.schedules, "agreed": conf.agreed, "real_loop_steps_replayed_on_twin": conf.steps, "per_scenario": conf.per},
        "per_scenario": per,
        "schedules_cut_by_horizon": incomplete,
        "schedules_pruned_ambiguous_timers": pruned,
        "deviation_bound_completed": deep(args.tier),
        "exhaustive": incomplete == 0,
        "explanation": "states = choice points visited, transitions = steps of the real transaction loops observed through hook H5 and replayed on the twins",
    });
    rep.assumptions = vec![
        "2-3 daemons and 2-3 concurrent transactions, not tens; all schedules with at most the stated number of deviations from the default schedule".into(),
        "a transaction sends as soon as its transport slot is free (the real select! loop does); time does not pass while a slot is full".into(),
    ];
    if incomplete > 0 {
        rep.machinery_errors.push(format!("{} schedules were cut by the step horizon", incomplete));
    }
    rep
}

pub fn c11_scenarios(tier: Tier) -> Vec<DScn> {
    let dev = deep(tier);
    let mut v = vec![];
    let cfg = cfg_base("c11");
    // T1 A->B acknowledged, T2 B->A unacknowledged with the same sequence number on the other entity
    let base = DScn {
        name: "c11 two daemons: T1 A->B ack, T2 B->A unack".into(),
        cfg: cfg.clone(),
        daemons: 2,
        txns: vec![TxnSpec { from: 0, to: 1, ack: true, size: 33 }, TxnSpec { from: 1, to: 0, ack: false, size: 17 }],
        dev_bound: dev,
        drops: true,
        dups: false,
        overtake: true,
        delay: false,
        user: vec![],
        strays: false,
        horizon: 400,
        seq_start: None,
        bursts: false,
        default_cfg: None,
        src_symlink: false,
        empty_dst: false,
    };
    v.push(base.clone());
    // per-entity configuration: each daemon holds an entry for its peer (immediate NAK, limit 2);
    // its default configuration is different (deferred NAK, limit 1, abandon) and must not be used
    let mut pe = base.clone();
    pe.name = "c11 per-entity configuration differs from the default: T1 A->B ack, T2 B->A unack".into();
    pe.cfg.nak_immediate = true;
    let mut dflt = cfg.clone();
    dflt.max_count = 1;
    dflt.handlers = vec![(1, 3), (7, 3), (8, 3)];
    pe.default_cfg = Some(dflt);
    pe.delay = true;
    v.push(pe);
    // a burst of copies of one PDU, more than the command queue of its transaction holds
    let mut bu = base.clone();
    bu.name = "c11 two daemons: T1 A->B ack, T2 B->A unack + burst".into();
    bu.bursts = true;
    bu.overtake = false;
    bu.dev_bound = dev.min(2);
    v.push(bu);
    // the sequence counter at the top of its width: ids handed out for Put stay distinct
    let mut w = base.clone();
    w.name = "c11 sequence counter wraps: three Puts A->B from U8(254)".into();
    w.txns = vec![TxnSpec { from: 0, to: 1, ack: false, size: 16 }, TxnSpec { from: 0, to: 1, ack: true, size: 17 }, TxnSpec { from: 0, to: 1, ack: false, size: 1 }];
    w.seq_start = Some(cfdp_core::pdu::VariableID::from(254u8));
    w.dev_bound = 1;
    v.push(w);
    let mut s = base.clone();
    s.name = "c11 two daemons: T1 A->B ack, T2 B->A unack, T3 A->B unack (shared slot) + strays".into();
    s.txns.push(TxnSpec { from: 0, to: 1, ack: false, size: 16 });
    s.strays = true;
    s.overtake = false;
    v.push(s);
    // two transactions towards the same entity share one transport slot; the first is suspended
    // and resumed by its user at any point — the second must not notice
    let mut sh = base.clone();
    sh.name = "c11 T1 A->B ack, T3 A->B unack (shared slot) + suspend/resume of T1 at A".into();
    sh.txns = vec![TxnSpec { from: 0, to: 1, ack: true, size: 33 }, TxnSpec { from: 0, to: 1, ack: false, size: 33 }];
    sh.user = vec![(0, Side::S, UserOp::Suspend), (0, Side::S, UserOp::Resume)];
    sh.drops = false;
    sh.overtake = false;
    v.push(sh);
    if tier == Tier::Thorough {
        let mut t = base.clone();
        t.name = "c11 three daemons: T1 A->B ack, T2 B->A unack, T3 A->C unack + strays".into();
        t.daemons = 3;
        t.txns.push(TxnSpec { from: 0, to: 2, ack: false, size: 16 });
        t.strays = true;
        v.push(t);
    }
    v
}

/// debugging aid: vcheck E2DBG "<scenario name>" "<act,act,...>" — runs the schedule given by action names
pub fn dbg(args: &Args) -> Report {
    let name = &args.extra[0];
    let want: Vec<String> = args.extra.get(1).map(|s| s.split(';').map(|x| x.trim().to_string()).filter(|x| !x.is_empty()).collect()).unwrap_or_default();
    let scn = all_scenarios().into_iter().find(|s| &s.name == name).expect("scenario");
    // translate action names into choice indices by running prefixes
    let mut choices: Vec<usize> = vec![];
    for w in &want {
        let r = run_schedule_probe(&scn, &choices);
        let idx = r.iter().position(|a| a == w).unwrap_or_else(|| panic!("action {} not enabled; enabled: {:?}", w, r));
        choices.push(idx);
    }
    std::env::set_var("VERIF_E2_DEBUG", "1");
    let r = run_schedule(&scn, &choices);
    println!("divergence: {:?}\nviolations: {:?}", r.divergence, r.violations);
    let mut rep = Report::new("other");
    rep.coverage = json!({"explanation": "debug"});
    rep
}

/// debugging aid: memory growth per schedule
pub fn leak(args: &Args) -> Report {
    let scn = c11_scenarios(Tier::Quick).remove(0);
    let mode = args.extra.first().cloned().unwrap_or_default();
    let rss = || {
        let s = std::fs::read_to_string("/proc/self/statm").unwrap();
        s.split_whitespace().nth(1).unwrap().parse::<u64>().unwrap() * 4 / 1024
    };
    println!("start rss={} MB", rss());
    if mode == "lvl1" {
        let scn = c11_scenarios(Tier::Quick).remove(1);
        let r0 = run_schedule(&scn, &[]);
        for i in 0..r0.points.len() {
            for alt in 1..r0.points[i].0 {
                let mut p: Vec<usize> = r0.points[..i].iter().map(|x| x.1).collect();
                p.push(alt);
                let before = rss();
                let t = std::time::Instant::now();
                let r = run_schedule(&scn, &p);
                if rss() > before + 20 || t.elapsed().as_millis() > 200 {
                    println!("prefix {:?}: rss {} -> {} MB, {} ms, steps {}, completed {}, last acts {:?}", p, before, rss(), t.elapsed().as_millis(), r.steps, r.completed, &r.acts[r.acts.len().saturating_sub(6)..]);
                }
            }
        }
        let mut rep = Report::new("other");
        rep.coverage = json!({"explanation": "debug"});
        return rep;
    }
    for i in 0..3000 {
        match mode.as_str() {
            "rt" => {
                let rt = tokio::runtime::Builder::new_current_thread().enable_time().start_paused(true).build().unwrap();
                rt.block_on(async { tokio::time::sleep(std::time::Duration::from_millis(1)).await });
            }
            _ => {
                let _ = run_schedule(&scn, &[]);
            }
        }
        if i % 500 == 0 {
            println!("{} rss={} MB", i, rss());
        }
    }
    let mut rep = Report::new("other");
    rep.coverage = json!({"explanation": "debug"});
    rep
}

/// C06, daemon-level clause: malformed datagrams fed to a running daemon through a transport that
/// keeps the default `pdu_handler` and decodes like `UdpTransport::receive`.
pub fn c06_daemon(rep: &mut Report, tier: Tier) {
    use cfdp_core::pdu::PDUEncode;
    let mut inputs: Vec<Vec<u8>> = vec![];
    // inputs that used to panic the decoder, and other short strings
    inputs.push(vec![0x02, 0x00, 0x00]);
    inputs.push(vec![0xff]);
    inputs.push(vec![]);
    let alpha: [u8; 14] = [0x00, 0x01, 0x02, 0x04, 0x07, 0x08, 0x0f, 0x10, 0x3f, 0x40, 0x7f, 0x80, 0xfe, 0xff];
    for a in alpha {
        inputs.push(vec![a]);
        for b in alpha {
            inputs.push(vec![a, b]);
            if tier == Tier::Thorough {
                for c in alpha {
                    inputs.push(vec![a, b, c, 0xff]);
                }
            }
        }
    }
    // every truncation and a length-field corruption of valid PDUs (with and without CRC)
    let scn = std::sync::Arc::new(Scenario::base("c06"));
    let specs = [InjectSpec::Nak(vec![(0, 16), (20, 33)]), InjectSpec::BadEof { checksum_xor: 0, size_delta: 0 }];
    let valid: Vec<Vec<u8>> = crate::world::on_rt(async {
        let mut v = vec![];
        for crc in [false, true] {
            let mut s = (*scn).clone();
            s.crc = crc;
            let w = World::new(std::sync::Arc::new(s));
            for sp in &specs {
                v.push(w.inject_pdu(sp).1.encode());
            }
        }
        v
    });
    for v in &valid {
        for t in 0..v.len() {
            inputs.push(v[..t].to_vec());
        }
        for val in [0u16, 1, 2, 255, 65534, 65535] {
            let mut m = v.clone();
            m[1] = (val >> 8) as u8;
            m[2] = val as u8;
            inputs.push(m);
        }
        for idlen in 0..8u8 {
            let mut m = v.clone();
            m[3] = (m[3] & 0x88) | (idlen << 4) | idlen;
            inputs.push(m);
        }
    }
    let (fed, fails) = byte_daemon_run(&inputs);
    for (clause, sig, detail) in fails {
        rep.violations.push(Violation { clause: format!("daemon-{}", clause), signature: format!("daemon|{}|{}", clause, sig), detail, replay: json!({"engine": "daemon-bytes"}) });
    }
    if let Some(o) = rep.coverage.as_object_mut() {
        o.insert("daemon_level".into(), json!({"datagrams_fed_to_running_daemon": fed, "of": inputs.len(), "transport": "default pdu_handler + decode as UdpTransport::receive", "then": "valid Metadata must spawn a receive transaction; Put must be answered"}));
    }
}
