//! vcheck — model-checking driver for the cfdp-rs properties C01..C20.
//! usage: vcheck <ID> [--tier quick|thorough] [--replay <file>] [extra…]
mod bfs;
mod common;
mod daemon_world;
mod en_alloc;
mod en_checksum;
mod en_codec;
mod en_corpus;
mod en_crc;
mod en_decode;
mod en_paths;
mod en_udp;
mod mons;
mod props_e1;
mod props_e2;
mod refck;
mod seq_counter;
mod seq_fsreq;
mod seq_segments;
mod world;

use common::{Args, Tier};
use std::time::Instant;

fn main() {
    let mut it = std::env::args().skip(1);
    let id = it.next().unwrap_or_else(|| {
        eprintln!("usage: vcheck <ID> [--tier quick|thorough] [--replay file]");
        std::process::exit(2)
    });
    let mut tier = match std::env::var("VERIF_TIER").ok().as_deref() {
        Some("thorough") => Tier::Thorough,
        _ => Tier::Quick,
    };
    let mut replay = None;
    let mut extra = vec![];
    while let Some(a) = it.next() {
        match a.as_str() {
            "--tier" => {
                tier = match it.next().as_deref() {
                    Some("thorough") => Tier::Thorough,
                    Some("quick") => Tier::Quick,
                    _ => {
                        eprintln!("bad tier");
                        std::process::exit(2)
                    }
                }
            }
            "--replay" => replay = it.next(),
            _ => extra.push(a),
        }
    }
    let seed = std::env::var("VERIF_SEED").ok().and_then(|s| s.parse().ok()).unwrap_or(0);
    let args = Args { id: id.clone(), tier, seed, replay, extra };
    if std::env::var("VERIF_PANIC_TRACE").is_err() {
        std::panic::set_hook(Box::new(|_| {}));
    }
    // scratch on tmpfs; the receiver's staging file is an O_TMPFILE in $TMPDIR
    let scratch = common::scratch_base();
    std::env::set_var("TMPDIR", &scratch);
    let started = Instant::now();
    common::set_context(&args, started);
    let report = match id.as_str() {
        "C01" => props_e1::c01(&args),
        "C02" => props_e1::c02(&args),
        "C03" => props_e1::c03(&args),
        "C04" => props_e1::c04(&args),
        "C05" => en_codec::run(&args),
        "C06" => {
            let mut rep = en_decode::run(&args);
            if args.replay.is_none() {
                props_e2::c06_daemon(&mut rep, args.tier);
            }
            rep
        }
        "C07" => props_e1::c07(&args),
        "C08" => props_e1::c08(&args),
        "C09" => props_e1::c09(&args),
        "C10" => props_e1::c10(&args),
        "C11" => props_e2::c11(&args),
        "C12" => en_paths::run(&args),
        "C13" => props_e1::c13(&args),
        "C14" => en_checksum::run(&args),
        "C15" => en_crc::run(&args),
        "C16" => en_udp::run(&args),
        "C17" => props_e1::c17(&args),
        "C18" => props_e1::c18(&args),
        "C19" => props_e1::c19(&args),
        "C20" => props_e1::c20(&args),
        "DBG" => props_e1::dbg(&args),
        "E2DBG" => props_e2::dbg(&args),
        "LEAK" => props_e2::leak(&args),
        _ => {
            eprintln!("unknown property id {}", id);
            std::process::exit(2)
        }
    };
    let code = common::finish(&args, started, report);
    let _ = std::fs::remove_dir_all(&scratch);
    std::process::exit(code);
}
