//! C16 — E4: two-step histories on the real `UdpTransport` over loopback.
//!
//! Corpus: valid datagrams of every PDU payload type, with and without CRC, small/large file
//! size flag, several id widths and lengths (quick 14, thorough 40). For every ordered pair
//! (earlier L, later V) and every t in 0..=len(V): a *fresh* transport (zeroed receive buffer)
//! receives L, then V[..t] (t = len(V): V complete). Where len(L) > t stale bytes of L lie behind
//! the later datagram in the buffer; otherwise only the zeros of the fresh buffer do.
//! Oracle (differential): first result == PDU::decode(L); second == PDU::decode(V[..t]) computed
//! on those bytes alone (both Err, or equal Ok). `receive` is reached through the public
//! `PDUTransport` trait; no hook is needed.
use crate::common::*;
use cfdp_core::filestore::ChecksumType;
use cfdp_core::pdu::*;
use cfdp_daemon::transport::{PDUTransport, UdpTransport};
use rayon::prelude::*;
use serde_json::{json, Value};
use std::collections::{BTreeMap, HashMap};
use std::time::Duration;

fn hdr(payload: &PDUPayload, crc: bool, large: bool, idw: u8) -> PDUHeader {
    let fss = if large { FileSizeFlag::Large } else { FileSizeFlag::Small };
    let id = |v: u64| match idw {
        1 => VariableID::from(v as u8),
        2 => VariableID::from(v as u16),
        4 => VariableID::from(v as u32),
        _ => VariableID::from(v),
    };
    let (pdu_type, seg) = match payload {
        PDUPayload::Directive(_) => (PDUType::FileDirective, SegmentedData::NotPresent),
        PDUPayload::FileData(FileDataPDU::Segmented(_)) => (PDUType::FileData, SegmentedData::Present),
        PDUPayload::FileData(_) => (PDUType::FileData, SegmentedData::NotPresent),
    };
    PDUHeader {
        version: U3::One,
        pdu_type,
        direction: Direction::ToReceiver,
        transmission_mode: TransmissionMode::Acknowledged,
        crc_flag: if crc { CRCFlag::Present } else { CRCFlag::NotPresent },
        large_file_flag: fss,
        pdu_data_field_length: payload.encoded_len(fss),
        segmentation_control: SegmentationControl::NotPreserved,
        segment_metadata_flag: seg,
        source_entity_id: id(18),
        transaction_sequence_number: id(7),
        destination_entity_id: id(23),
    }
}

fn payloads() -> Vec<(&'static str, PDUPayload)> {
    let d = |o| PDUPayload::Directive(o);
    vec![
        ("eof", d(Operations::EoF(EndOfFile { condition: Condition::NoError, checksum: 0x1234_5678, file_size: 1000, fault_location: None }))),
        (
            "eof-fault",
            d(Operations::EoF(EndOfFile { condition: Condition::FilesizeError, checksum: 7, file_size: 12, fault_location: Some(VariableID::from(15u16)) })),
        ),
        (
            "finished",
            d(Operations::Finished(Finished {
                condition: Condition::NoError,
                delivery_code: DeliveryCode::Complete,
                file_status: FileStatusCode::Retained,
                filestore_response: vec![],
                fault_location: None,
            })),
        ),
        (
            "finished-fsr",
            d(Operations::Finished(Finished {
                condition: Condition::NoError,
                delivery_code: DeliveryCode::Complete,
                file_status: FileStatusCode::Retained,
                filestore_response: vec![FileStoreResponse {
                    action_and_status: FileStoreStatus::CreateFile(CreateFileStatus::Successful),
                    first_filename: "test".into(),
                    second_filename: "".into(),
                    filestore_message: b"msg".to_vec(),
                }],
                fault_location: None,
            })),
        ),
        (
            "ack",
            d(Operations::Ack(PositiveAcknowledgePDU {
                directive: PDUDirective::EoF,
                directive_subtype_code: ACKSubDirective::Other,
                condition: Condition::NoError,
                transaction_status: TransactionStatus::Active,
            })),
        ),
        (
            "metadata",
            d(Operations::Metadata(MetadataPDU {
                closure_requested: false,
                checksum_type: ChecksumType::Modular,
                file_size: 55,
                source_filename: "in.dat".into(),
                destination_filename: "out.dat".into(),
                options: vec![],
            })),
        ),
        (
            "metadata-tlv",
            d(Operations::Metadata(MetadataPDU {
                closure_requested: true,
                checksum_type: ChecksumType::Modular,
                file_size: 4096,
                source_filename: "the input filename".into(),
                destination_filename: "the output filename".into(),
                options: vec![
                    MetadataTLV::FileStoreRequest(FileStoreRequest { action_code: FileStoreAction::CreateFile, first_filename: "new".into(), second_filename: "".into() }),
                    MetadataTLV::MessageToUser(MessageToUser { message_text: b"hello".to_vec() }),
                    MetadataTLV::FlowLabel(FlowLabel { value: vec![1, 2, 3] }),
                ],
            })),
        ),
        ("nak", d(Operations::Nak(NegativeAcknowledgmentPDU { start_of_scope: 0, end_of_scope: 1000, segment_requests: vec![] }))),
        (
            "nak-2",
            d(Operations::Nak(NegativeAcknowledgmentPDU {
                start_of_scope: 12,
                end_of_scope: 239585,
                segment_requests: vec![SegmentRequestForm { start_offset: 12, end_offset: 64 }, SegmentRequestForm { start_offset: 69, end_offset: 4758 }],
            })),
        ),
        ("prompt", d(Operations::Prompt(PromptPDU { nak_or_keep_alive: NakOrKeepAlive::KeepAlive }))),
        ("keepalive", d(Operations::KeepAlive(KeepAlivePDU { progress: 184 }))),
        ("filedata-12", PDUPayload::FileData(FileDataPDU::Unsegmented(UnsegmentedFileData { offset: 948, file_data: (0..12).collect() }))),
        ("filedata-40", PDUPayload::FileData(FileDataPDU::Unsegmented(UnsegmentedFileData { offset: 16, file_data: (100..140).collect() }))),
        (
            "filedata-seg",
            PDUPayload::FileData(FileDataPDU::Segmented(SegmentedFileData {
                record_continuation_state: RecordContinuationState::First,
                segment_metadata: vec![9, 8, 7],
                offset: 757,
                file_data: (33..57).collect(),
            })),
        ),
    ]
}

/// (label, pdu, encoded bytes)
fn corpus(tier: Tier) -> Vec<(String, PDU, Vec<u8>)> {
    let mut out = vec![];
    let mut add = |name: &str, p: &PDUPayload, crc: bool, large: bool, idw: u8| {
        let pdu = PDU { header: hdr(p, crc, large, idw), payload: p.clone() };
        let bytes = pdu.clone().encode();
        out.push((format!("{}{}{}/id{}", name, if crc { "+crc" } else { "" }, if large { "+large" } else { "" }, idw), pdu, bytes));
    };
    let ps = payloads();
    match tier {
        // every payload once, CRC on every other one
        Tier::Quick => {
            for (i, (n, p)) in ps.iter().enumerate() {
                add(n, p, i % 2 == 1, false, 2);
            }
        }
        // every payload with and without CRC, plus large-file / other id-width variants
        Tier::Thorough => {
            for (n, p) in &ps {
                add(n, p, false, false, 2);
                add(n, p, true, false, 2);
            }
            for (i, (n, p)) in ps.iter().enumerate().filter(|(i, _)| i % 7 != 6) {
                add(n, p, i % 2 == 0, true, [1u8, 4, 8][i % 3]);
            }
        }
    }
    out
}

fn show(r: &Result<PDU, String>) -> String {
    match r {
        Ok(p) => format!("Ok({:?})", p),
        Err(e) => format!("Err({})", e),
    }
}

struct Outcome {
    /// None = fine; Some((clause, class, detail))
    fail: Option<(String, String, String)>,
    machinery: Option<String>,
}

/// cases in which receive() did not return for the second datagram (each costs a real-time wait);
/// after a few dozen of them the verdict is in and the remaining cases are skipped
static BLOCKED: std::sync::atomic::AtomicUsize = std::sync::atomic::AtomicUsize::new(0);

/// one 2-step history on a fresh transport
fn eval(rt: &tokio::runtime::Runtime, tx: &std::net::UdpSocket, l: &[u8], v: &[u8], t: usize, verbose: bool) -> Outcome {
    let second = &v[..t];
    if BLOCKED.load(std::sync::atomic::Ordering::Relaxed) > 48 {
        return Outcome { fail: None, machinery: None };
    }
    let want1 = catch(|| PDU::decode(&mut &l[..])).map_err(|p| format!("panic {}", p)).and_then(|r| r.map_err(|e| e.to_string()));
    let want2 = catch(|| PDU::decode(&mut &second[..])).map_err(|p| format!("panic {}", p)).and_then(|r| r.map_err(|e| e.to_string()));
    let res: Result<Result<(Result<PDU, String>, Result<PDU, String>), String>, String> = catch(|| {
        rt.block_on(async {
            let sock = tokio::net::UdpSocket::bind("127.0.0.1:0").await.map_err(|e| format!("bind: {}", e))?;
            let addr = sock.local_addr().map_err(|e| e.to_string())?;
            let mut tr = UdpTransport::try_from((sock, HashMap::new())).map_err(|e| e.to_string())?;
            tx.send_to(l, addr).map_err(|e| format!("send: {}", e))?;
            let r1 = tokio::time::timeout(Duration::from_secs(5), tr.receive()).await.map_err(|_| "timeout waiting for the first datagram".to_string())?;
            tx.send_to(second, addr).map_err(|e| format!("send: {}", e))?;
            // (the same receive() call is kept alive across the sentinel: a transport that keeps
            // partial input in the state of that call must not get a fresh start from the harness)
            let fut = tr.receive();
            tokio::pin!(fut);
            let r2 = match tokio::time::timeout(Duration::from_millis(400), &mut fut).await {
                Ok(r) => r.map_err(|e| e.to_string()),
                Err(_) => {
                    BLOCKED.fetch_add(1, std::sync::atomic::Ordering::Relaxed);
                    // receive() produced nothing for this datagram. Dropping it silently is a way of
                    // rejecting it — unless its bytes are kept and completed by whatever comes next:
                    // send the first datagram again as a sentinel and see what comes out
                    tx.send_to(l, addr).map_err(|e| format!("send: {}", e))?;
                    let r3 = tokio::time::timeout(Duration::from_secs(5), &mut fut).await.map_err(|_| "timeout waiting for the sentinel datagram".to_string())?;
                    match (r3, PDU::decode(&mut &l[..])) {
                        (Ok(got), Ok(want)) if got == want => Err("dropped silently".to_string()),
                        (Err(_), Err(_)) => Err("dropped silently".to_string()),
                        (got, _) => return Ok((r1.map_err(|e| e.to_string()), Err(format!("HELD: the datagram was kept and the next datagram was received as {:?}", got.map_err(|e| e.to_string()))))),
                    }
                }
            };
            Ok::<_, String>((r1.map_err(|e| e.to_string()), r2))
        })
    });
    let (got1, got2) = match res {
        Ok(Ok(x)) => x,
        Ok(Err(m)) => return Outcome { fail: None, machinery: Some(m) },
        Err(p) => {
            return Outcome { fail: Some(("panic".into(), "receive-panicked".into(), format!("receive panicked: {} (L={} second={})", p, hex(l), hex(second)))), machinery: None }
        }
    };
    if verbose {
        println!("first  datagram {} bytes: receive -> {}\n                         alone -> {}", l.len(), show(&got1), show(&want1));
        println!("second datagram {} bytes: receive -> {}\n                         alone -> {}", t, show(&got2), show(&want2));
    }
    let same = |a: &Result<PDU, String>, b: &Result<PDU, String>| match (a, b) {
        (Ok(x), Ok(y)) => x == y,
        (Err(_), Err(_)) => true,
        _ => false,
    };
    let held = matches!(&got2, Err(e) if e.starts_with("HELD:"));
    let fail = if held {
        Some(("own-bytes-only".to_string(), "truncated-datagram-completed-by-next".to_string(), format!("the {}-byte datagram {} ({} of {} bytes of a valid PDU) was not rejected: {}", t, hex(second), t, v.len(), show(&got2))))
    } else if t < v.len() && got2.is_ok() {
        // a datagram that lost its tail in flight announces more than it carries: it must be rejected
        // (this clause does not rely on the decoder agreeing)
        Some(("own-bytes-only".to_string(), "truncated-datagram-accepted".to_string(), format!("the {}-byte datagram {} ({} of {} bytes of a valid PDU) was accepted as {}", t, hex(second), t, v.len(), show(&got2))))
    } else if !same(&got1, &want1) {
        Some(("first-datagram".to_string(), "fresh-transport-decodes-differently".to_string(), format!("datagram {} on a fresh transport: receive gave {}, decode of the bytes gives {}", hex(l), show(&got1), show(&want1))))
    } else if !same(&got2, &want2) {
        let class = match (&got2, &want2) {
            (Ok(_), Err(_)) if t < v.len() => "truncated-datagram-accepted",
            (Ok(_), Err(_)) => "invalid-datagram-accepted",
            (Err(_), Ok(_)) => "valid-datagram-rejected",
            _ => "decoded-to-a-different-pdu",
        };
        Some((
            "own-bytes-only".to_string(),
            class.to_string(),
            format!(
                "after the {}-byte datagram {} the {}-byte datagram {} ({} of {} bytes of a valid PDU) was received as {}; those bytes alone decode to {}",
                l.len(),
                hex(l),
                t,
                hex(second),
                t,
                v.len(),
                show(&got2),
                show(&want2)
            ),
        ))
    } else {
        None
    };
    Outcome { fail, machinery: None }
}

fn runtime() -> tokio::runtime::Runtime {
    tokio::runtime::Builder::new_current_thread().enable_io().enable_time().build().expect("tokio runtime")
}

pub fn run(args: &Args) -> Report {
    let mut rep = Report::new("fault_enumeration");
    if let Some(p) = &args.replay {
        let v: Value = serde_json::from_str(&std::fs::read_to_string(p).expect("replay file")).expect("replay json");
        let c = &v["case"];
        let (l, vv, t) = (unhex(c["earlier"].as_str().unwrap()), unhex(c["later"].as_str().unwrap()), c["t"].as_u64().unwrap() as usize);
        let rt = runtime();
        let tx = std::net::UdpSocket::bind("127.0.0.1:0").expect("bind sender");
        let o = eval(&rt, &tx, &l, &vv, t, true);
        if let Some(m) = o.machinery {
            rep.machinery_errors.push(m);
        }
        if let Some((clause, class, detail)) = o.fail {
            println!("still failing: {}|{}", clause, class);
            rep.violations.push(Violation { clause: clause.clone(), signature: format!("{}|{}", clause, class), detail, replay: c.clone() });
        } else {
            println!("case passes");
        }
        rep.coverage = json!({"evaluations": 1, "distinct_nontrivial": 0, "rule": "replay", "samples": [c]});
        return rep;
    }
    let corp = corpus(args.tier);
    // corpus self-check: every datagram is a valid PDU that decodes to what was encoded
    for (name, pdu, bytes) in &corp {
        match catch(|| PDU::decode(&mut &bytes[..])) {
            Ok(Ok(p)) if &p == pdu => {}
            other => rep.machinery_errors.push(format!("corpus entry {} does not round-trip: {:?}", name, other.map(|r| r.map_err(|e| e.to_string())))),
        }
    }
    let n = corp.len();
    // fixed order: (earlier index, later index, t)
    let pairs: Vec<(usize, usize)> = (0..n).flat_map(|i| (0..n).map(move |j| (i, j))).collect();
    struct PairRes {
        evals: u64,
        nontrivial: u64,
        completable: u64,
        fails: Vec<((usize, usize, usize), (String, String, String))>,
        machinery: Vec<String>,
    }
    let results: Vec<PairRes> = pairs
        .par_iter()
        .map(|&(i, j)| {
            let rt = runtime();
            let tx = std::net::UdpSocket::bind("127.0.0.1:0").expect("bind sender");
            let (l, v) = (&corp[i].2, &corp[j].2);
            let mut r = PairRes { evals: 0, nontrivial: 0, completable: 0, fails: vec![], machinery: vec![] };
            for t in 0..=v.len() {
                r.evals += 1;
                if l.len() > t {
                    // non-trivial: stale bytes of L lie beyond the end of the later datagram and the
                    // later datagram on its own is not a PDU
                    let alone_err = !matches!(catch(|| PDU::decode(&mut &v[..t])), Ok(Ok(_)));
                    if alone_err {
                        r.nontrivial += 1;
                    }
                    // would "V[..t] completed with L[t..]" be accepted? (the shape of the suspected defect)
                    let mut glued = v[..t].to_vec();
                    glued.extend_from_slice(&l[t..]);
                    glued.resize(65535, 0);
                    if alone_err && matches!(catch(|| PDU::decode(&mut &glued[..])), Ok(Ok(_))) {
                        r.completable += 1;
                    }
                }
                let o = eval(&rt, &tx, l, v, t, false);
                if let Some(m) = o.machinery {
                    r.machinery.push(format!("pair ({},{}) t={}: {}", corp[i].0, corp[j].0, t, m));
                }
                if let Some(f) = o.fail {
                    r.fails.push(((i, j, t), f));
                }
            }
            r
        })
        .collect();
    let mut first: BTreeMap<String, ((usize, usize, usize), String, String)> = BTreeMap::new();
    let mut per_class: BTreeMap<String, u64> = BTreeMap::new();
    let (mut evals, mut nontrivial, mut completable) = (0u64, 0u64, 0u64);
    for r in results {
        evals += r.evals;
        nontrivial += r.nontrivial;
        completable += r.completable;
        rep.machinery_errors.extend(r.machinery.into_iter().take(3));
        for (key, (clause, class, detail)) in r.fails {
            let sig = format!("{}|{}", clause, class);
            *per_class.entry(sig.clone()).or_default() += 1;
            // results arrive in pair order and t order: the first seen is the smallest
            first.entry(sig).or_insert((key, clause, detail));
        }
    }
    rep.machinery_errors.truncate(5);
    for (sig, ((i, j, t), clause, detail)) in &first {
        rep.violations.push(Violation {
            clause: clause.clone(),
            signature: sig.clone(),
            detail: format!("earlier = {}, later = {} cut to {} bytes: {} ({} failing cases in this class)", corp[*i].0, corp[*j].0, t, detail, per_class[sig]),
            replay: json!({"earlier": hex(&corp[*i].2), "later": hex(&corp[*j].2), "t": t, "earlier_name": corp[*i].0, "later_name": corp[*j].0}),
        });
    }
    rep.coverage = json!({
        "evaluations": evals,
        "distinct_nontrivial": nontrivial,
        "rule": "a case (L, V, t) is non-trivial when L is longer than t (stale bytes of L lie beyond the end of the later datagram in the receive buffer) and V[..t] alone is not a decodable PDU; all cases are distinct triples",
        "exhaustive": true,
        "corpus_size": n,
        "corpus": corp.iter().map(|(name, _, b)| json!({"name": name, "len": b.len()})).collect::<Vec<_>>(),
        "ordered_pairs": pairs.len(),
        "cases_where_stale_completion_would_decode": completable,
        "failing_cases_per_class": per_class,
        "samples": [
            json!({"earlier": corp[0].0, "later": corp[1].0, "t": 0, "later_bytes": hex(&corp[1].2)}),
            json!({"earlier": corp[n - 1].0, "later": corp[n - 2].0, "t": corp[n - 2].2.len() / 2, "earlier_bytes": hex(&corp[n - 1].2)}),
            json!({"earlier": corp[6].0, "later": corp[4].0, "t": corp[4].2.len(), "note": "complete short datagram after a longer one"}),
        ],
    });
    rep.assumptions = vec![
        "loopback UDP delivers each datagram intact and in order (one datagram in flight at a time)".into(),
        "each history starts from a fresh transport (zeroed receive buffer); histories longer than two datagrams add nothing because a datagram overwrites the buffer prefix it occupies and the longest earlier datagram dominates".into(),
        "the corpus stands for all valid PDUs: every payload type, with/without CRC, both file-size flags, id widths 1/2/4/8".into(),
    ];
    rep
}
