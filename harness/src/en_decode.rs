//! C06 — E4: decoding arbitrary bytes never panics, never allocates beyond what a 16-bit length
//! can announce, and whatever is accepted is canonical.
//!
//! Enumerated
//!  (i)   every byte string of length <= 3 (quick 2) over all 256 values and of length <= 8
//!        (quick 6) over the boundary alphabet {00,01,02,04,07,08,0F,10,3F,40,7F,80,FE,FF},
//!        through `PDU::decode` and every public per-type `decode` (table `decoders()`); for
//!        `UserOperation::decode` additionally the same strings behind the "cfdp" marker.
//!        The strings are walked as a trie, depth first.  The reader handed to the decoder records
//!        whether the decoder ever asked for more bytes than were left.  If it did not, the
//!        decoder's run on every extension of that string is the same run (a decoder is a
//!        deterministic function of the bytes it reads and keeps no state), so the sub-trie is
//!        not re-run; its size is reported as `covered_by_prefix_closure`.  Likewise, when the run
//!        ended because a `read_exact` was short by n bytes (and nothing was read afterwards),
//!        every extension by fewer than n bytes fails in that same call: those levels are skipped
//!        (`covered_by_short_read_exact`) and the walk resumes n levels down.  Every other node is
//!        executed, hence the space is covered completely.
//!  (ii)  for each PDU of `shape_corpus()` (one per payload shape, both CRC settings, both
//!        file-size flags) through `PDU::decode`, for one encoding per `UserOperation` variant
//!        through `UserOperation::decode` and for a status report through `Report::decode`:
//!        every truncation, every single-byte substitution by the 255 other values at every
//!        position, and for PDUs the 16-bit length field forced to {0,1,2,255,65534,65535}.
//!  (iii) all 2^16 values of the header length field x CRC flag over three fixed bodies (long
//!        file data, an EOF directive followed by padding, a 6-byte body), plus, for every
//!        length, the correctly CRC'd file-data PDU of exactly that length (must be accepted).
//!
//! Oracle per case: no unwinding; no single allocation request above 4 x 64 KiB while decoding
//! (counting global allocator, per thread); an accepted value v satisfies
//! `decode(encode(v')) == v'` where v' is v with the header length field recomputed from the
//! payload (v' = v for everything that is not a whole PDU).
use crate::common::*;
use crate::en_alloc::{catch_loc, install_panic_recorder, measure};
use crate::en_codec::{diff_class, panic_class, Fail};
use crate::en_corpus::*;
use cfdp_core::{daemon::Report as StatusReport, pdu::*};
use rayon::prelude::*;
use serde_json::{json, Value};
use std::collections::BTreeMap;
use std::fmt::Debug;
use std::hash::{Hash, Hasher};
use std::io::Read;

const ALLOC_LIMIT: usize = 4 * 65536;
const BOUNDARY: [u8; 14] = [0x00, 0x01, 0x02, 0x04, 0x07, 0x08, 0x0F, 0x10, 0x3F, 0x40, 0x7F, 0x80, 0xFE, 0xFF];

/// Slice reader that notices how the decoder ran out of input.
///  * `starved`  — some request went beyond the end of the input (else: closure, see above);
///  * `deficit`  — the first such request was a `read_exact` short by this many bytes;
///  * `soft`     — a plain `read` / `read_to_end` reached the end (short reads are legal there, so
///                 the result may depend on any extension), or the decoder kept reading after a
///                 failed `read_exact`.
struct Track<'a> {
    d: &'a [u8],
    pos: usize,
    starved: bool,
    soft: bool,
    failed: bool,
    deficit: usize,
}
impl<'a> Track<'a> {
    fn new(d: &'a [u8]) -> Self {
        Track { d, pos: 0, starved: false, soft: false, failed: false, deficit: 0 }
    }
}
impl Read for Track<'_> {
    fn read(&mut self, buf: &mut [u8]) -> std::io::Result<usize> {
        let rem = self.d.len() - self.pos;
        if self.failed {
            self.soft = true;
        }
        if buf.len() > rem {
            self.starved = true;
            self.soft = true;
        }
        let n = buf.len().min(rem);
        buf[..n].copy_from_slice(&self.d[self.pos..self.pos + n]);
        self.pos += n;
        Ok(n)
    }
    fn read_exact(&mut self, buf: &mut [u8]) -> std::io::Result<()> {
        let rem = self.d.len() - self.pos;
        if self.failed {
            self.soft = true;
        }
        if buf.len() > rem {
            self.starved = true;
            if !self.failed {
                self.failed = true;
                self.deficit = buf.len() - rem;
            }
            self.pos = self.d.len();
            return Err(std::io::ErrorKind::UnexpectedEof.into());
        }
        buf.copy_from_slice(&self.d[self.pos..self.pos + buf.len()]);
        self.pos += buf.len();
        Ok(())
    }
    fn read_to_end(&mut self, out: &mut Vec<u8>) -> std::io::Result<usize> {
        if self.failed {
            self.soft = true;
        }
        self.starved = true;
        self.soft = true;
        let n = self.d.len() - self.pos;
        out.extend_from_slice(&self.d[self.pos..]);
        self.pos = self.d.len();
        Ok(n)
    }
}

pub struct Outcome {
    pub accepted: bool,
    /// 0: the decoder never reached the end of the input (every extension is the same run);
    /// 1: extensions must be run; n >= 2: the run ended in a `read_exact` short by n bytes, so
    /// every extension by fewer than n bytes fails in that same read
    pub need: usize,
    pub max_request: usize,
    pub peak_live: usize,
    pub alloc_requests: u64,
    pub fails: Vec<Fail>,
    pub shown: String,
}

type Rd<'a> = &'a mut dyn Read;
pub struct Dec {
    pub name: String,
    run: Box<dyn Fn(&[u8], bool) -> Outcome + Send + Sync>,
}

/// Build a table entry from a decoder, its encoder, an equality and a normalisation (v -> v').
fn entry<T, D, E>(name: &str, dec: D, enc: Option<E>, eq: fn(&T, &T) -> bool, norm: fn(T) -> T) -> Dec
where
    T: Clone + Debug + 'static,
    D: for<'a, 'b> Fn(&'a mut Rd<'b>) -> PDUResult<T> + Send + Sync + 'static,
    E: Fn(T) -> Vec<u8> + Send + Sync + 'static,
{
    let run = move |bytes: &[u8], verbose: bool| -> Outcome {
        let mut out = Outcome { accepted: false, need: 1, max_request: 0, peak_live: 0, alloc_requests: 0, fails: vec![], shown: String::new() };
        let (res, st) = measure(|| {
            catch_loc(|| {
                let mut t = Track::new(bytes);
                let r = {
                    let mut rd: Rd = &mut t;
                    dec(&mut rd)
                };
                let need = match (t.starved, t.soft, &r) {
                    (false, _, _) => 0,
                    (true, false, Err(_)) => t.deficit.max(1),
                    _ => 1,
                };
                (r, need)
            })
        });
        out.max_request = st.max_request;
        out.peak_live = st.peak_live;
        out.alloc_requests = st.requests;
        if st.max_request > ALLOC_LIMIT {
            out.fails.push(Fail {
                clause: "alloc",
                class: "single-request>256KiB".into(),
                detail: format!("a single allocation of {} bytes was requested while decoding {} input bytes", st.max_request, bytes.len()),
            });
        }
        let v = match res {
            Err(p) => {
                out.need = 1; // unknown: do not prune below a panic
                out.fails.push(Fail { clause: "panic", class: panic_class(&p), detail: format!("decode panicked at {}: {}", p.loc, p.msg) });
                if verbose {
                    out.shown = format!("PANIC at {}: {}", p.loc, p.msg);
                }
                return out;
            }
            Ok((r, need)) => {
                out.need = need;
                match r {
                    Err(e) => {
                        if verbose {
                            out.shown = format!("Err({})", e);
                        }
                        return out;
                    }
                    Ok(v) => v,
                }
            }
        };
        out.accepted = true;
        if verbose {
            out.shown = format!("Ok({:?})", v);
        }
        let Some(enc) = &enc else { return out };
        // canonicity: decode(encode(v')) == v'
        let vp = match catch_loc(|| norm(v)) {
            Ok(vp) => vp,
            Err(p) => {
                out.fails.push(Fail { clause: "canonical", class: format!("panic|{}", panic_class(&p)), detail: format!("recomputing the length of the accepted value panicked at {}: {}", p.loc, p.msg) });
                return out;
            }
        };
        match catch_loc(|| {
            let b = enc(vp.clone());
            let mut s: &[u8] = &b;
            let back = {
                let mut rd: Rd = &mut s;
                dec(&mut rd)
            };
            (b, back)
        }) {
            Ok((_, Ok(back))) => {
                if !eq(&vp, &back) {
                    let (e, g) = (format!("{:?}", vp), format!("{:?}", back));
                    out.fails.push(Fail { clause: "canonical", class: diff_class(&e, &g), detail: format!("accepted  : {}\nre-decoded: {}", e.chars().take(600).collect::<String>(), g.chars().take(600).collect::<String>()) });
                }
            }
            Ok((b, Err(e))) => out.fails.push(Fail {
                clause: "canonical",
                class: format!("re-decode-err|{}", format!("{:?}", e).split(|c: char| !c.is_ascii_alphanumeric()).next().unwrap_or("")),
                detail: format!("accepted {:?}\nits re-encoding {} is rejected: {}", vp, hex(&b[..b.len().min(200)]), e),
            }),
            Err(p) => out.fails.push(Fail { clause: "canonical", class: format!("panic|{}", panic_class(&p)), detail: format!("re-encoding / re-decoding the accepted value panicked at {}: {}\naccepted {:?}", p.loc, p.msg, vp) }),
        }
        out
    };
    Dec { name: name.to_string(), run: Box::new(run) }
}

fn same<T>(v: T) -> T {
    v
}
fn peq<T: PartialEq>(a: &T, b: &T) -> bool {
    a == b
}
fn recompute_len(mut p: PDU) -> PDU {
    p.header.pdu_data_field_length = p.payload.encoded_len(p.header.large_file_flag);
    p
}
fn report_eq(a: &StatusReport, b: &StatusReport) -> bool {
    a.id == b.id && a.state == b.state && a.status == b.status && a.condition == b.condition
}
type NoEnc<T> = fn(T) -> Vec<u8>;

macro_rules! plain {
    ($v:ident, $($t:ident),*) => { $( $v.push(entry(stringify!($t), |r: &mut Rd| <$t as PDUEncode>::decode(r), Some(|x: $t| x.encode()), peq::<$t>, same::<$t>)); )* };
}
macro_rules! sized {
    ($v:ident, $($t:ident),*) => { $( for fss in FSS {
        $v.push(entry(&format!("{}/{:?}", stringify!($t), fss), move |r: &mut Rd| <$t as FSSEncode>::decode(r, fss), Some(move |x: $t| x.encode(fss)), peq::<$t>, same::<$t>));
    } )* };
}

/// `PDU::decode` first, then every public per-type decoder
pub fn decoders() -> Vec<Dec> {
    let mut v = vec![entry("PDU", |r: &mut Rd| PDU::decode(r), Some(|x: PDU| x.encode()), peq::<PDU>, recompute_len)];
    plain!(v, PDUHeader);
    sized!(v, Operations, EndOfFile, MetadataPDU, NegativeAcknowledgmentPDU, KeepAlivePDU, SegmentRequestForm, UnsegmentedFileData, SegmentedFileData);
    for fss in FSS {
        for seg in SEGMETA {
            v.push(entry(
                &format!("FileDataPDU/{:?}/{:?}", seg, fss),
                move |r: &mut Rd| FileDataPDU::decode(r, seg, fss),
                Some(move |x: FileDataPDU| x.encode(fss)),
                peq::<FileDataPDU>,
                same::<FileDataPDU>,
            ));
        }
    }
    for (ty, fss, seg) in [(0usize, FileSizeFlag::Small, SegmentedData::NotPresent), (1, FileSizeFlag::Large, SegmentedData::Present)] {
        v.push(entry(
            &format!("PDUPayload/{:?}/{:?}/{:?}", pdu_type(ty), fss, seg),
            move |r: &mut Rd| PDUPayload::decode(r, pdu_type(ty), fss, seg),
            Some(move |x: PDUPayload| x.encode(fss)),
            peq::<PDUPayload>,
            same::<PDUPayload>,
        ));
    }
    plain!(v, Finished, PositiveAcknowledgePDU, PromptPDU, MetadataTLV, VariableID, FlowLabel, MessageToUser, FaultHandlerOverride, TransmissionMode, FileStoreRequest, FileStoreResponse);
    plain!(
        v,
        UserOperation,
        OriginatingTransactionIDMessage,
        ProxyPutRequest,
        ProxyPutResponse,
        ProxySegmentationControl,
        DirectoryListingRequest,
        DirectoryListingResponse,
        RemoteStatusReportRequest,
        RemoteStatusReportResponse,
        RemoteSuspendRequest,
        RemoteSuspendResponse,
        RemoteResumeRequest,
        RemoteResumeResponse,
        SFORequest,
        SFOReport
    );
    v.push(entry("Report", |r: &mut Rd| StatusReport::decode(r), Some(|x: StatusReport| x.encode()), report_eq, same::<StatusReport>));
    // helpers without an encoder: only "no panic, bounded allocation"
    v.push(entry("read_length_value_pair", |r: &mut Rd| read_length_value_pair(r), None::<NoEnc<Vec<u8>>>, peq, same));
    v.push(entry("read_type_length_value", |r: &mut Rd| read_type_length_value(r), None::<NoEnc<(u8, Vec<u8>)>>, peq, same));
    v.push(entry("read_type", |r: &mut Rd| read_type(r), None::<NoEnc<u8>>, peq, same));
    v
}

fn h64(tag: &str, bytes: &[u8]) -> u64 {
    let mut h = std::collections::hash_map::DefaultHasher::new();
    tag.hash(&mut h);
    bytes.hash(&mut h);
    h.finish()
}

#[derive(Default)]
struct Acc {
    evaluations: u64,
    accepted: u64,
    rejected: u64,
    /// evaluated, non-empty input (part (i): distinct by construction)
    nontrivial_i: u64,
    /// hashes of evaluated non-empty (decoder, input) pairs of parts (ii)/(iii)
    hashes: Vec<u64>,
    closure_covered: u128,
    short_read_covered: u128,
    /// part (iii) cases (distinct by construction: length x flag x body)
    nontrivial_iii: u64,
    max_request: usize,
    peak_live: usize,
    /// signature -> ((len, bytes, decoder index), violation, occurrences)
    fails: BTreeMap<String, ((usize, Vec<u8>, usize), Violation, u64)>,
}
impl Acc {
    fn merge(mut self, o: Acc) -> Acc {
        self.evaluations += o.evaluations;
        self.accepted += o.accepted;
        self.rejected += o.rejected;
        self.nontrivial_i += o.nontrivial_i;
        self.hashes.extend(o.hashes);
        self.closure_covered += o.closure_covered;
        self.short_read_covered += o.short_read_covered;
        self.nontrivial_iii += o.nontrivial_iii;
        self.max_request = self.max_request.max(o.max_request);
        self.peak_live = self.peak_live.max(o.peak_live);
        for (k, (key, v, n)) in o.fails {
            match self.fails.get_mut(&k) {
                Some(e) => {
                    e.2 += n;
                    if key < e.0 {
                        e.0 = key;
                        e.1 = v;
                    }
                }
                None => {
                    self.fails.insert(k, (key, v, n));
                }
            }
        }
        self
    }
    fn record(&mut self, part: &str, di: usize, d: &Dec, bytes: &[u8], out: Outcome) {
        self.evaluations += 1;
        if out.accepted {
            self.accepted += 1
        } else {
            self.rejected += 1
        }
        self.max_request = self.max_request.max(out.max_request);
        self.peak_live = self.peak_live.max(out.peak_live);
        for f in out.fails {
            // the cause of a panic is its location, whatever decoder reached it; canonicity and
            // allocation failures are attributed to the decoder
            let sig = if f.clause == "panic" { format!("panic|{}", f.class) } else { format!("{}|{}|{}", f.clause, d.name, f.class) };
            let key = (bytes.len(), bytes.to_vec(), di);
            match self.fails.get_mut(&sig) {
                Some(e) => {
                    e.2 += 1;
                    if key < e.0 {
                        e.0 = key;
                        e.1.detail = format!("{} on input {} ({} bytes, part {})\n{}", d.name, hex(&bytes[..bytes.len().min(64)]), bytes.len(), part, f.detail);
                        e.1.replay = json!({"engine": "en-decode", "decoder": d.name, "bytes": hex(bytes)});
                    }
                }
                None => {
                    let v = Violation {
                        clause: f.clause.to_string(),
                        signature: sig.clone(),
                        detail: format!("{} on input {} ({} bytes, part {})\n{}", d.name, hex(&bytes[..bytes.len().min(64)]), bytes.len(), part, f.detail),
                        replay: json!({"engine": "en-decode", "decoder": d.name, "bytes": hex(bytes)}),
                    };
                    self.fails.insert(sig, (key, v, 1));
                }
            }
        }
    }
}

/// number of strings strictly below a node at depth `len` in a trie of depth `max`, counting
/// only those of depth >= `from` (shallower ones belong to an earlier pass)
fn subtree(alpha: usize, len: usize, max: usize, from: usize) -> u128 {
    (len + 1..=max).filter(|&k| k >= from).map(|k| (alpha as u128).pow((k - len) as u32)).sum()
}

/// Evaluate `buf`, then everything below it that is not covered by one of the two arguments.
#[allow(clippy::too_many_arguments)]
fn walk(di: usize, d: &Dec, alpha: &[u8], seed_len: usize, max: usize, count_from: usize, buf: &mut Vec<u8>, acc: &mut Acc) {
    let out = (d.run)(buf, false);
    let need = out.need;
    let depth = buf.len() - seed_len;
    // strings of depth < count_from were already evaluated and counted by the full-alphabet pass
    if depth >= count_from {
        if !buf.is_empty() {
            acc.nontrivial_i += 1;
        }
        acc.record("i", di, d, buf, out);
    }
    below(di, d, alpha, seed_len, max, count_from, buf, acc, need);
}

/// Descend from an evaluated node whose run reported `need`.
#[allow(clippy::too_many_arguments)]
fn below(di: usize, d: &Dec, alpha: &[u8], seed_len: usize, max: usize, count_from: usize, buf: &mut Vec<u8>, acc: &mut Acc, need: usize) {
    let depth = buf.len() - seed_len;
    if depth >= max {
        return;
    }
    if need == 0 {
        acc.closure_covered += subtree(alpha.len(), depth, max, count_from);
    } else if depth + need > max {
        // every string below fails in the same short read_exact
        acc.short_read_covered += subtree(alpha.len(), depth, max, count_from);
    } else {
        // levels depth+1 .. depth+need-1 fail in the same read; run level depth+need
        acc.short_read_covered += subtree(alpha.len(), depth, depth + need - 1, count_from);
        if depth <= 2 && max - depth >= 5 {
            // a deep sub-trie near the root: give each child to the pool (finer load balance)
            let sub = alpha
                .par_iter()
                .map(|&a| {
                    let (mut b, mut part) = (buf.clone(), Acc::default());
                    b.push(a);
                    if need == 1 {
                        walk(di, d, alpha, seed_len, max, count_from, &mut b, &mut part);
                    } else {
                        extend(di, d, alpha, seed_len, max, count_from, &mut b, &mut part, need - 1);
                    }
                    part
                })
                .reduce(Acc::default, Acc::merge);
            *acc = std::mem::take(acc).merge(sub);
        } else {
            extend(di, d, alpha, seed_len, max, count_from, buf, acc, need);
        }
    }
}

#[allow(clippy::too_many_arguments)]
fn extend(di: usize, d: &Dec, alpha: &[u8], seed_len: usize, max: usize, count_from: usize, buf: &mut Vec<u8>, acc: &mut Acc, more: usize) {
    for &a in alpha {
        buf.push(a);
        if more == 1 {
            walk(di, d, alpha, seed_len, max, count_from, buf, acc);
        } else {
            extend(di, d, alpha, seed_len, max, count_from, buf, acc, more - 1);
        }
        buf.pop();
    }
}

/// part (i): per decoder / seed the seed itself, then one task per first symbol and alphabet
fn part_i(decs: &[Dec], tier: Tier) -> Acc {
    let all: Vec<u8> = (0..=255u8).collect();
    let (full_len, bnd_len) = (tier.pick(2, 3), tier.pick(6, 8));
    // (decoder, seed, alphabet, max depth, depths below this were counted by an earlier pass, first symbol)
    let mut tasks: Vec<(usize, Vec<u8>, &[u8], usize, usize, Option<u8>)> = vec![];
    for (di, d) in decs.iter().enumerate() {
        let seeds: Vec<Vec<u8>> = if d.name == "UserOperation" { vec![vec![], b"cfdp".to_vec()] } else { vec![vec![]] };
        for seed in seeds {
            tasks.push((di, seed.clone(), &all, 0, 0, None)); // the seed itself
            for &a in &all {
                tasks.push((di, seed.clone(), &all, full_len, 0, Some(a)));
            }
            for &a in &BOUNDARY {
                // boundary strings of depth <= full_len are a subset of the pass above
                tasks.push((di, seed.clone(), &BOUNDARY, bnd_len, full_len + 1, Some(a)));
            }
        }
    }
    tasks
        .par_iter()
        .map(|(di, seed, alpha, max, count_from, first)| {
            let mut acc = Acc::default();
            let mut buf = seed.clone();
            let d = &decs[*di];
            let root = (d.run)(&buf, false);
            match first {
                None => {
                    if !buf.is_empty() {
                        acc.nontrivial_i += 1;
                    }
                    acc.record("i", *di, d, &buf, root);
                }
                Some(a) => {
                    // the run on the seed decides what has to be run in the sub-trie of `a`;
                    // the bookkeeping of covered strings is done once, by the first symbol's task
                    let need = root.need;
                    if need == 1 {
                        buf.push(*a);
                        walk(*di, d, alpha, seed.len(), *max, *count_from, &mut buf, &mut acc);
                    } else if need >= 2 && need <= *max {
                        buf.push(*a);
                        extend(*di, d, alpha, seed.len(), *max, *count_from, &mut buf, &mut acc, need - 1);
                        if *a == alpha[0] {
                            acc.short_read_covered += subtree(alpha.len(), 0, need - 1, *count_from);
                        }
                    } else if *a == alpha[0] {
                        let n = subtree(alpha.len(), 0, *max, *count_from);
                        if need == 0 {
                            acc.closure_covered += n
                        } else {
                            acc.short_read_covered += n
                        }
                    }
                }
            }
            acc
        })
        .reduce(Acc::default, Acc::merge)
}

fn in_part_i(bytes: &[u8], tier: Tier) -> bool {
    bytes.len() <= tier.pick(2, 3) || (bytes.len() <= tier.pick(6, 8) && bytes.iter().all(|b| BOUNDARY.contains(b)))
}

/// run one explicit case of parts (ii)/(iii)
fn one(part: &str, di: usize, d: &Dec, bytes: &[u8], tier: Tier, acc: &mut Acc) -> bool {
    let out = (d.run)(bytes, false);
    let ok = out.accepted;
    if !bytes.is_empty() && !in_part_i(bytes, tier) {
        acc.hashes.push(h64(&d.name, bytes));
    }
    acc.record(part, di, d, bytes, out);
    ok
}

/// the mutation corpus: (decoder name, label, encoding)
fn mutation_corpus() -> Vec<(&'static str, String, Vec<u8>)> {
    let mut c: Vec<(&'static str, String, Vec<u8>)> = shape_corpus().into_iter().map(|(n, p)| ("PDU", n, p.encode())).collect();
    for g in groups(Tier::Quick) {
        if !g.name.starts_with("userop/") {
            continue;
        }
        // two encodings per variant: a case with mixed small values (the first well-formed case
        // at or after 1/3 of the grid) and the all-maximum corner (8-byte ids, 255-byte strings)
        let n = g.size();
        let enc = |i: u64| match (g.make)(&unrank(&g.dims, i)) {
            Some(Val::UserOp(op)) => Some(op.encode()),
            Some(Val::UserOpBytes(b)) if UserOperation::decode(&mut b.as_slice()).is_ok() => Some(b),
            _ => None,
        };
        let mixed = (n / 3..n).chain(0..n / 3).find_map(enc);
        let corner = (0..n).rev().find_map(enc);
        for (tag, b) in [("mixed", mixed.clone()), ("max", corner.filter(|c| Some(c) != mixed.as_ref()))] {
            if let Some(b) = b {
                c.push(("UserOperation", format!("{}/{}", g.name, tag), b));
            }
        }
    }
    // hand-assembled (not produced by the subject's encoder): a Finished PDU whose filestore
    // response TLV value fills 254 and exactly 255 octets — what the decoder accepts there must
    // re-encode to the same octets
    if let Some((_, _, plain)) = c.iter().find(|x| x.1.starts_with("finished-plain") && x.2[0] & 0x02 == 0).cloned() {
        for (n1, n2) in [(100usize, 150usize), (100, 151), (251, 0)] {
            let mut b = plain.clone();
            let crc = b[0] & 0x02 != 0;
            if crc {
                continue;
            }
            let mut value = vec![0x30u8]; // AppendFile, Successful
            value.push(n1 as u8);
            value.extend(std::iter::repeat(b'p').take(n1));
            value.push(n2 as u8);
            value.extend(std::iter::repeat(b'q').take(n2));
            value.push(0);
            b.push(0x01); // filestore response TLV
            b.push(value.len() as u8);
            b.extend_from_slice(&value);
            let len = u16::from_be_bytes([b[1], b[2]]) + 2 + value.len() as u16;
            b[1..3].copy_from_slice(&len.to_be_bytes());
            c.push(("PDU", format!("raw/finished-response-tlv-{}", value.len()), b));
        }
    }
    c.push((
        "Report",
        "report".into(),
        StatusReport {
            id: cfdp_core::transaction::TransactionID(VariableID::U16(258), VariableID::U32(0x01020304)),
            state: cfdp_core::transaction::TransactionState::Suspended,
            status: TransactionStatus::Active,
            condition: Condition::FilesizeError,
        }
        .encode(),
    ));
    c
}

fn part_ii(decs: &[Dec], tier: Tier, shapes: &mut Vec<Value>) -> Acc {
    let corpus = mutation_corpus();
    for (dn, label, b) in corpus.iter().filter(|x| x.1.contains("eof-error") || x.1.contains("Resume")).take(4) {
        shapes.push(json!({"decoder": dn, "shape": label, "bytes": hex(b)}));
    }
    corpus
        .par_iter()
        .map(|(dn, label, bytes)| {
            let mut acc = Acc::default();
            let di = decs.iter().position(|d| d.name == *dn).expect("decoder");
            let d = &decs[di];
            if !one("ii/original", di, d, bytes, tier, &mut acc) {
                // machinery: the corpus must be valid to begin with
                acc.fails.insert(
                    format!("machinery|corpus|{}", label),
                    ((0, vec![], 0), Violation { clause: "machinery".into(), signature: format!("machinery|corpus|{}", label), detail: "corpus item is rejected unmodified".into(), replay: json!({}) }, 1),
                );
            }
            for k in 0..bytes.len() {
                one("ii/truncation", di, d, &bytes[..k], tier, &mut acc);
            }
            let mut m = bytes.clone();
            for pos in 0..bytes.len() {
                for val in 0..=255u8 {
                    if val != bytes[pos] {
                        m[pos] = val;
                        one("ii/substitution", di, d, &m, tier, &mut acc);
                    }
                }
                m[pos] = bytes[pos];
            }
            if *dn == "PDU" {
                // a length octet forced to its maximum WITH that many octets actually present behind
                // it (300 filler octets appended, header length adjusted): reaches the code behind
                // a successful long read, which a bare substitution of a short PDU never does
                let old_len = u16::from_be_bytes([bytes[1], bytes[2]]) as usize;
                let new_len = (old_len + 300).min(65535) as u16;
                for pos in 4..bytes.len() {
                    for val in [0xffu8, 0xfe] {
                        let mut p = bytes.clone();
                        p[pos] = val;
                        p.extend(std::iter::repeat(0x01u8).take(300));
                        p[1..3].copy_from_slice(&new_len.to_be_bytes());
                        one("ii/max-length-with-filler", di, d, &p, tier, &mut acc);
                    }
                }
                for l in [0u16, 1, 2, 255, 65534, 65535] {
                    m[1..3].copy_from_slice(&l.to_be_bytes());
                    one("ii/forced-length", di, d, &m, tier, &mut acc);
                    // the same with the CRC flag inverted
                    m[0] ^= 0x02;
                    one("ii/forced-length+crc-flag", di, d, &m, tier, &mut acc);
                    m[0] ^= 0x02;
                }
            }
            acc
        })
        .reduce(Acc::default, Acc::merge)
}

fn part_iii(decs: &[Dec], tier: Tier) -> Acc {
    let d = &decs[0];
    assert_eq!(d.name, "PDU");
    // bodies: long file data, EOF directive + padding, short
    let long: Vec<u8> = blob(65537, 0x17);
    let mut eof = vec![0x04, 0x00, 1, 2, 3, 4, 0, 0, 0, 9];
    eof.resize(65537, 0);
    let short = vec![0x04u8, 0x00, 1, 2, 3, 4];
    let bodies: [(&str, u8, &[u8]); 3] = [("file-data", 0x10, &long), ("eof+padding", 0x00, &eof), ("short", 0x00, &short)];
    // a case of this part is (length, CRC flag, body): distinct by construction, never in part (i)
    let run3 = |part: &str, b: &[u8], acc: &mut Acc| -> bool {
        let out = (d.run)(b, false);
        let ok = out.accepted;
        acc.nontrivial_iii += 1;
        acc.record(part, 0, d, b, out);
        ok
    };
    (0..=65535u32)
        .into_par_iter()
        .map(|l| {
            let mut acc = Acc::default();
            let l = l as u16;
            for (_, ty, body) in bodies {
                for crc in [0u8, 2] {
                    // version 1, 1-byte ids; the body is cut a little after what the length
                    // field can ask for (the decoder must not look further)
                    let mut b = vec![0x20 | ty | crc, (l >> 8) as u8, l as u8, 0x00, 5, 6, 7];
                    b.extend_from_slice(&body[..body.len().min(l as usize + 4)]);
                    run3("iii/length-sweep", &b, &mut acc);
                }
            }
            // a correctly CRC'd file-data PDU whose length field is exactly l (2 CRC + 4 offset
            // + data); quick: boundary lengths and every 16th, thorough: every length
            let dense = tier == Tier::Thorough || l % 16 == 6 || l < 300 || l > 65535 - 300;
            if l >= 6 && dense {
                let p = wrap(
                    PDUPayload::FileData(FileDataPDU::Unsegmented(UnsegmentedFileData { offset: 7, file_data: long[..l as usize - 6].to_vec() })),
                    FileSizeFlag::Small,
                    SegmentedData::NotPresent,
                    Hv { crc: CRCFlag::Present, idw: 1, seqw: 1, misc: 0 },
                )
                .unwrap();
                // (the subject may panic while encoding: that is a finding, not a crash of the check)
                let b = match catch(|| p.encode()) {
                    Ok(b) => b,
                    Err(m) => {
                        let sig = format!("panic|PDU|encode|{}", m.chars().filter(|c| !c.is_ascii_digit()).take(60).collect::<String>());
                        acc.fails.entry(sig.clone()).or_insert((
                            (l as usize, vec![], 0),
                            Violation { clause: "panic".into(), signature: sig, detail: format!("PDU::encode panicked for a well-formed file-data PDU with CRC and length field {}: {}", l, m), replay: json!({"engine": "en-decode", "decoder": "PDU", "bytes": "", "note": format!("file data, CRC, length field {}", l)}) },
                            1,
                        ));
                        return acc;
                    }
                };
                if !run3("iii/valid-crc", &b, &mut acc) {
                    let sig = "accept|PDU|valid-crc-pdu-rejected".to_string();
                    acc.fails.entry(sig.clone()).or_insert((
                        (b.len(), b[..16].to_vec(), 0),
                        Violation { clause: "accept".into(), signature: sig, detail: format!("a well-formed file-data PDU with CRC and length field {} is rejected", l), replay: json!({"engine": "en-decode", "decoder": "PDU", "bytes": hex(&b)}) },
                        1,
                    ));
                }
            }
            acc
        })
        .reduce(Acc::default, Acc::merge)
}

fn replay(path: &str) -> Report {
    let mut rep = Report::new("exploration");
    let v: Value = serde_json::from_str(&std::fs::read_to_string(path).expect("replay file")).expect("replay json");
    let (dn, bytes) = (v["case"]["decoder"].as_str().unwrap_or("PDU"), unhex(v["case"]["bytes"].as_str().unwrap_or("")));
    let decs = decoders();
    let Some(di) = decs.iter().position(|d| d.name == dn) else {
        rep.machinery_errors.push(format!("replay: unknown decoder {:?}", dn));
        return rep;
    };
    println!("decoder : {}", dn);
    println!("input   : {} ({} bytes)", hex(&bytes[..bytes.len().min(256)]), bytes.len());
    let out = (decs[di].run)(&bytes, true);
    println!("result  : {}", out.shown.chars().take(2000).collect::<String>());
    println!("{} allocation requests, largest {} bytes, peak live {} bytes", out.alloc_requests, out.max_request, out.peak_live);
    let mut acc = Acc::default();
    acc.record("replay", di, &decs[di], &bytes, out);
    let want = v["signature"].as_str().unwrap_or("");
    for (sig, (_, viol, _)) in acc.fails {
        println!("FAILED {}\n{}", sig, viol.detail);
        if want.is_empty() || sig == want {
            rep.violations.push(viol);
        }
    }
    println!("{}", if rep.violations.is_empty() { "the case passes now" } else { "the case still fails" });
    rep.coverage = json!({"evaluations": 1});
    rep
}

pub fn run(args: &Args) -> Report {
    install_panic_recorder();
    if let Some(p) = &args.replay {
        return replay(p);
    }
    let mut rep = Report::new("exploration");
    let decs = decoders();
    let tier = args.tier;
    let mut samples: Vec<Value> = vec![];
    let t0 = std::time::Instant::now();
    let a1 = part_i(&decs, tier);
    let t1 = t0.elapsed().as_secs_f64();
    let a2 = part_ii(&decs, tier, &mut samples);
    let t2 = t0.elapsed().as_secs_f64();
    let a3 = part_iii(&decs, tier);
    let t3 = t0.elapsed().as_secs_f64();
    let part = |a: &Acc| json!({"evaluations": a.evaluations, "accepted": a.accepted, "rejected": a.rejected});
    let parts = json!({
        "i_short_strings": {"evaluations": a1.evaluations, "accepted": a1.accepted, "rejected": a1.rejected,
            "covered_by_prefix_closure": a1.closure_covered.to_string(), "covered_by_short_read_exact": a1.short_read_covered.to_string(), "wall_s": t1,
            "all_bytes_max_len": tier.pick(2, 3), "boundary_alphabet_max_len": tier.pick(6, 8)},
        "ii_corpus_mutations": {"summary": part(&a2), "corpus_items": mutation_corpus().len(), "wall_s": t2 - t1},
        "iii_length_sweep": {"summary": part(&a3), "wall_s": t3 - t2},
    });
    let nontrivial_i = a1.nontrivial_i + a3.nontrivial_iii;
    let mut total = a1.merge(a2).merge(a3);
    let mut hashes = std::mem::take(&mut total.hashes);
    hashes.par_sort_unstable();
    hashes.dedup();
    samples.push(json!({"decoder": "PDU", "part": "iii", "bytes": format!("{}+6-byte body", hex(&[0x22, 0, 1, 0, 5, 6, 7])), "note": "CRC flag set, length field 1"}));
    samples.push(json!({"decoder": "VariableID", "part": "i", "bytes": hex(&[0xff])}));
    rep.coverage = json!({
        "evaluations": total.evaluations,
        "distinct_nontrivial": nontrivial_i + hashes.len() as u64,
        "accepted": total.accepted,
        "rejected": total.rejected,
        "decoders": decs.iter().map(|d| d.name.clone()).collect::<Vec<_>>(),
        "parts": parts,
        "max_single_allocation_request_bytes": total.max_request,
        "peak_live_bytes_during_a_decode": total.peak_live,
        "allocation_limit_bytes": ALLOC_LIMIT,
        "rule": "(i) trie walk of all strings up to the stated lengths over the two alphabets for every decoder; two kinds of sub-trie are not re-run because the run is provably the same: below a node where the decoder never reached the end of its input (same run on every extension), and the levels a failed read_exact still lacks (short by n bytes: every extension by fewer than n bytes fails in that same read); (ii) every truncation, every single-byte substitution, forced length fields (also with the CRC flag inverted) of every corpus item; (iii) all 65536 length values x CRC flag x 3 bodies + the valid CRC'd PDU of every length (quick: boundary lengths and every 16th). A case is a (decoder, input) pair; it is non-trivial when the input is non-empty and the decoder was actually run on it (accepted inputs also exercise the canonicity clause). Parts (i) and (iii) are distinct by construction (boundary strings no longer than the full-alphabet depth are counted once); part (ii) is de-duplicated by hash and excludes inputs that belong to part (i)",
        "exhaustive": true,
        "failed_clauses_by_signature": total.fails.iter().map(|(k, v)| (k.clone(), v.2)).collect::<BTreeMap<_, _>>(),
        "samples": samples,
    });
    rep.assumptions = vec![
        "a decoder is a deterministic function of the bytes it reads from its reader (no global state), so a run that never asked for more input than it had is the run on every longer input with that prefix".into(),
        "the daemon-level clause (a running daemon survives the rejected inputs) is checked by the E2 engine, not here".into(),
        "after a failed read_exact a decoder does not use the (unspecified) contents of the buffer it passed; if it reads again the short-read argument is not applied".into(),
        "allocation accounting is per thread; decoders do not spawn threads".into(),
    ];
    if total.accepted == 0 || total.rejected == 0 {
        rep.machinery_errors.push("vacuous run: no accepted or no rejected input".into());
    }
    for (sig, (_, v, _)) in total.fails {
        if sig.starts_with("machinery|") {
            rep.machinery_errors.push(format!("{}: {}", sig, v.detail));
        } else {
            rep.violations.push(v);
        }
    }
    rep
}
