//! Instrumentation shared by the E4 codec checks (C05/C06/C15):
//!
//! * a counting `#[global_allocator]` (the only one in the binary).  While the calling thread
//!   has its "measuring" flag set it records, per thread, the largest single allocation request
//!   and the peak number of live bytes requested since the flag was set.  With the flag off the
//!   cost is one thread-local read per allocation.
//! * a panic hook that remembers `file:line` of the last panic of the current thread, so that a
//!   panic can be reported with its source location (the root cause) instead of only its message.
use std::alloc::{GlobalAlloc, Layout, System};
use std::cell::{Cell, RefCell};

thread_local! {
    // const-initialised and without destructors: safe to touch from inside the allocator
    static ACTIVE: Cell<bool> = const { Cell::new(false) };
    static MAX_REQ: Cell<usize> = const { Cell::new(0) };
    static LIVE: Cell<usize> = const { Cell::new(0) };
    static PEAK: Cell<usize> = const { Cell::new(0) };
    static NREQ: Cell<u64> = const { Cell::new(0) };
    static LAST_PANIC: RefCell<Option<String>> = const { RefCell::new(None) };
}

pub struct Counting;

#[inline]
fn note_alloc(size: usize) {
    let _ = ACTIVE.try_with(|a| {
        if a.get() {
            MAX_REQ.with(|m| m.set(m.get().max(size)));
            NREQ.with(|n| n.set(n.get() + 1));
            LIVE.with(|l| {
                let v = l.get().saturating_add(size);
                l.set(v);
                PEAK.with(|p| p.set(p.get().max(v)));
            });
        }
    });
}
#[inline]
fn note_free(size: usize) {
    let _ = ACTIVE.try_with(|a| {
        if a.get() {
            // memory allocated before the measurement started may be freed inside it
            LIVE.with(|l| l.set(l.get().saturating_sub(size)));
        }
    });
}

unsafe impl GlobalAlloc for Counting {
    unsafe fn alloc(&self, l: Layout) -> *mut u8 {
        note_alloc(l.size());
        System.alloc(l)
    }
    unsafe fn alloc_zeroed(&self, l: Layout) -> *mut u8 {
        note_alloc(l.size());
        System.alloc_zeroed(l)
    }
    unsafe fn dealloc(&self, p: *mut u8, l: Layout) {
        note_free(l.size());
        System.dealloc(p, l)
    }
    unsafe fn realloc(&self, p: *mut u8, l: Layout, new_size: usize) -> *mut u8 {
        // a realloc is a request for `new_size` bytes
        note_free(l.size());
        note_alloc(new_size);
        System.realloc(p, l, new_size)
    }
}

#[global_allocator]
static GLOBAL: Counting = Counting;

#[derive(Clone, Copy, Debug, Default)]
pub struct AllocStats {
    /// largest single request (alloc / alloc_zeroed / realloc target size), bytes
    pub max_request: usize,
    /// peak of (bytes requested − bytes released) since the measurement started
    pub peak_live: usize,
    /// number of requests
    pub requests: u64,
}

/// Run `f` with allocation accounting switched on for this thread.  Not re-entrant.
pub fn measure<T>(f: impl FnOnce() -> T) -> (T, AllocStats) {
    MAX_REQ.with(|m| m.set(0));
    LIVE.with(|m| m.set(0));
    PEAK.with(|m| m.set(0));
    NREQ.with(|m| m.set(0));
    ACTIVE.with(|a| a.set(true));
    // the flag must be cleared even when `f` unwinds
    struct Off;
    impl Drop for Off {
        fn drop(&mut self) {
            ACTIVE.with(|a| a.set(false));
        }
    }
    let off = Off;
    let r = f();
    drop(off);
    let st = AllocStats {
        max_request: MAX_REQ.with(|m| m.get()),
        peak_live: PEAK.with(|m| m.get()),
        requests: NREQ.with(|m| m.get()),
    };
    (r, st)
}

/// Chain a hook in front of the current one that records the location of every panic in a
/// thread-local.  Idempotent enough: called once per check run.
pub fn install_panic_recorder() {
    let prev = std::panic::take_hook();
    std::panic::set_hook(Box::new(move |info| {
        let loc = info
            .location()
            .map(|l| {
                // keep the path from the crate directory on, so signatures do not depend on
                // where the worktree is mounted
                let f = l.file();
                let f = f.find("cfdp-").map(|i| &f[i..]).unwrap_or(f);
                format!("{}:{}", f, l.line())
            })
            .unwrap_or_else(|| "?".into());
        let _ = LAST_PANIC.try_with(|p| *p.borrow_mut() = Some(loc));
        prev(info);
    }));
}

/// A caught panic: message and `file:line`.
#[derive(Clone, Debug)]
pub struct Panicked {
    pub msg: String,
    pub loc: String,
}

/// `common::catch` plus the recorded location.
pub fn catch_loc<T>(f: impl FnOnce() -> T) -> Result<T, Panicked> {
    let _ = LAST_PANIC.try_with(|p| *p.borrow_mut() = None);
    // a panic leaves the measuring flag to the `Off` guard of `measure`
    crate::common::catch(f).map_err(|msg| Panicked {
        msg,
        loc: LAST_PANIC.with(|p| p.borrow_mut().take()).unwrap_or_else(|| "?".into()),
    })
}
