//! E1 direct world: one real SendTransaction and one real RecvTransaction, two links, a virtual
//! clock, a user at each side. Handlers are called directly — this file is a transliteration of
//! the three `select!` branches of the per-transaction loop in cfdp-daemon/src/lib.rs plus an
//! adversarial link. Its faithfulness is checked against the real loop by daemon_world.rs.
use crate::common::*;
use cfdp_core::{
    daemon::{Indication, NakProcedure},
    filestore::{ChecksumType, FileStoreAction, FileStoreRequest, NativeFileStore},
    pdu::{
        CRCFlag, Condition, Direction, EndOfFile, FaultHandlerAction, FileSizeFlag, NakOrKeepAlive,
        NegativeAcknowledgmentPDU, Operations, PDUEncode, PDUHeader, PDUPayload, PDUType,
        SegmentRequestForm, SegmentationControl, SegmentedData, TransmissionMode, VariableID, PDU, U3,
    },
    transaction::{Metadata, TransactionConfig, TransactionState},
};
use cfdp_daemon::transaction::{RecvTransaction, SendTransaction, TransactionError};
use serde::{Deserialize, Serialize};
use std::{
    collections::{BTreeMap, BTreeSet, HashMap, VecDeque},
    path::PathBuf,
    sync::Arc,
    time::Duration,
};
use tokio::sync::mpsc::{channel, Receiver, Sender};

#[derive(Clone, Copy, Debug, PartialEq, Eq, Hash, PartialOrd, Ord, Serialize, Deserialize)]
pub enum Side {
    S,
    R,
}
#[derive(Clone, Copy, Debug, PartialEq, Eq, Hash, PartialOrd, Ord, Serialize, Deserialize)]
pub enum LinkId {
    SR,
    RS,
}
impl LinkId {
    pub fn to(self) -> Side {
        match self {
            LinkId::SR => Side::R,
            LinkId::RS => Side::S,
        }
    }
    pub fn from_side(s: Side) -> LinkId {
        match s {
            Side::S => LinkId::SR,
            Side::R => LinkId::RS,
        }
    }
}
#[derive(Clone, Copy, Debug, PartialEq, Eq, Hash, PartialOrd, Ord, Serialize, Deserialize)]
pub enum UserOp {
    Cancel,
    Suspend,
    Resume,
    PromptNak,
    PromptKeepAlive,
    Report,
}

/// The event alphabet (DESIGN.md section 3.1).
#[derive(Clone, Debug, PartialEq, Eq, Hash, PartialOrd, Ord, Serialize, Deserialize)]
pub enum Ev {
    Send(Side),
    Deliver(LinkId),
    Overtake(LinkId, u8),
    Drop(LinkId),
    /// deliver the head and keep a copy (false: at the head, true: at the tail)
    Dup(LinkId, bool),
    /// flip one byte of the head PDU's data field (only offered with CRC on), then deliver it
    Corrupt(LinkId, u8),
    /// re-deliver the i-th (sorted) PDU ever sent on that link
    Straggler(LinkId, u16),
    /// advance the clock to X's next expiry and call handle_timeout; bool = costs one delay fault
    Timeout(Side, bool),
    /// advance the clock by k timer periods without calling anything (everything paused)
    Idle(u8),
    User(Side, UserOp),
    Blackout(LinkId),
    /// deliver the i-th PDU of the scenario's injection alphabet directly to its target
    Inject(u8),
    /// link latency: the PDUs in flight take `wait_ms` longer (no timer expires meanwhile)
    Wait,
}

#[derive(Clone, Debug, PartialEq, Eq, Serialize, Deserialize)]
pub enum Content {
    Ramp,
    Zeros,
    /// ramp, except segment i which is filled with word pairs 00000001 FFFFFFFF (sum 0 mod 2^32)
    NeutralAt(u8),
}

#[derive(Clone, Debug, PartialEq, Eq, Serialize, Deserialize)]
pub enum InjectSpec {
    /// NAK with these (start,end) requests, to the sender
    Nak(Vec<(u64, u64)>),
    /// EOF(NoError) with a wrong checksum / a file size delta, to the receiver
    BadEof { checksum_xor: u32, size_delta: i64 },
    /// a file data PDU for [offset, offset+len) to the receiver: source bytes where the range
    /// lies inside the file, 0xEE beyond it (a peer that sends more than it announces)
    Data { offset: u64, len: u64 },
}

#[derive(Clone, Debug, Serialize, Deserialize)]
pub struct Scenario {
    pub name: String,
    pub ack: bool,
    pub closure: bool,
    pub nak_immediate: bool,
    pub nak_delay_s: u64,
    pub seg: u16,
    /// None: no file transfer (metadata only / filestore requests only)
    pub file_size: Option<u64>,
    pub content: Content,
    pub null_checksum: bool,
    pub crc: bool,
    pub max_count: u32,
    pub t_inact: i64,
    pub t_ack: i64,
    pub t_nak: i64,
    /// (condition code, action: 0 cancel 1 suspend 2 ignore 3 abandon), both entities
    pub handlers: Vec<(u8, u8)>,
    /// (action code, first name, second name)
    pub requests: Vec<(u8, String, String)>,
    /// files present in the receiver's root before the transfer (name, content)
    pub pre_files: Vec<(String, String)>,
    // ---- adversary
    pub faults: u8,
    pub k_drop: bool,
    pub k_dup: bool,
    pub k_overtake: bool,
    pub k_delay: bool,
    pub k_corrupt: bool,
    pub stragglers: u8,
    /// stragglers only once the receiver has reported a successful delivery (C04)
    pub stragglers_after_success: bool,
    pub user: Vec<(Side, UserOp, u8)>,
    pub blackout: Vec<LinkId>,
    pub idle: u8,
    pub inject: Vec<InjectSpec>,
    pub inject_budget: u8,
    /// injections only until the receiver has reported a successful delivery
    #[serde(default)]
    pub inject_before_success: bool,
    /// budget and length of `Wait` events (PDUs spaced in time by less than any timer)
    #[serde(default)]
    pub waits: u8,
    #[serde(default)]
    pub wait_ms: u64,
    pub max_depth: usize,
    /// cycles are expected (Ignore handlers) — the engine cuts instead of reporting livelock
    pub allow_cycles: bool,
    /// the source name is a symbolic link (inside the sender's root) to the file that holds the data
    #[serde(default)]
    pub src_symlink: bool,
}
impl Scenario {
    pub fn base(name: &str) -> Scenario {
        Scenario {
            name: name.to_string(),
            ack: true,
            closure: false,
            nak_immediate: false,
            nak_delay_s: 0,
            seg: 16,
            file_size: Some(32),
            content: Content::Ramp,
            null_checksum: false,
            crc: false,
            max_count: 3,
            t_inact: 300,
            t_ack: 100,
            t_nak: 70,
            handlers: vec![],
            requests: vec![],
            pre_files: vec![],
            faults: 0,
            k_drop: false,
            k_dup: false,
            k_overtake: false,
            k_delay: false,
            k_corrupt: false,
            stragglers: 0,
            stragglers_after_success: false,
            user: vec![],
            blackout: vec![],
            idle: 0,
            inject: vec![],
            inject_budget: 0,
            inject_before_success: false,
            waits: 0,
            wait_ms: 0,
            max_depth: 400,
            allow_cycles: false,
            src_symlink: false,
        }
    }
    pub fn source_bytes(&self) -> Vec<u8> {
        let n = self.file_size.unwrap_or(0) as usize;
        let mut v: Vec<u8> = (0..n).map(|i| (0x11 + (i as u32 * 7) % 0xe0) as u8).collect();
        match self.content {
            Content::Ramp => {}
            Content::Zeros => v.iter_mut().for_each(|b| *b = 0),
            Content::NeutralAt(k) => {
                let seg = self.seg as usize;
                let lo = k as usize * seg;
                let hi = usize::min(lo + seg, n);
                let pat = [0u8, 0, 0, 1, 0xff, 0xff, 0xff, 0xff];
                let mut i = lo;
                while i < hi {
                    // only whole 8-byte pairs are neutral; a ragged tail stays zero
                    if i + 8 <= hi {
                        v[i..i + 8].copy_from_slice(&pat);
                        i += 8;
                    } else {
                        v[i] = 0;
                        i += 1;
                    }
                }
            }
        }
        v
    }
    pub fn mode(&self) -> TransmissionMode {
        if self.ack {
            TransmissionMode::Acknowledged
        } else {
            TransmissionMode::Unacknowledged
        }
    }
    pub fn nak_procedure(&self) -> NakProcedure {
        let d = Duration::from_secs(self.nak_delay_s);
        if self.nak_immediate {
            NakProcedure::Immediate(d)
        } else {
            NakProcedure::Deferred(d)
        }
    }
    pub fn checksum_type(&self) -> ChecksumType {
        if self.null_checksum {
            ChecksumType::Null
        } else {
            ChecksumType::Modular
        }
    }
    pub fn handler_map(&self) -> HashMap<Condition, FaultHandlerAction> {
        use num_traits_shim::cond_from_u8;
        self.handlers
            .iter()
            .map(|(c, a)| {
                (
                    cond_from_u8(*c),
                    match a {
                        0 => FaultHandlerAction::Cancel,
                        1 => FaultHandlerAction::Suspend,
                        2 => FaultHandlerAction::Ignore,
                        _ => FaultHandlerAction::Abandon,
                    },
                )
            })
            .collect()
    }
    pub fn fs_requests(&self) -> Vec<FileStoreRequest> {
        self.requests
            .iter()
            .map(|(a, f1, f2)| FileStoreRequest {
                action_code: num_traits_shim::action_from_u8(*a),
                first_filename: f1.into(),
                second_filename: f2.into(),
            })
            .collect()
    }
    pub fn nsegs(&self) -> u64 {
        let n = self.file_size.unwrap_or(0);
        (n + self.seg as u64 - 1) / self.seg as u64
    }
    pub fn class(&self) -> String {
        format!(
            "{}{}",
            if self.ack { "ack" } else { "unack" },
            if self.closure { "+closure" } else { "" }
        )
    }
}

pub mod num_traits_shim {
    use cfdp_core::{filestore::FileStoreAction, pdu::Condition};
    pub fn cond_from_u8(c: u8) -> Condition {
        match c {
            0 => Condition::NoError,
            1 => Condition::PositiveLimitReached,
            2 => Condition::KeepAliveLimitReached,
            3 => Condition::InvalidTransmissionMode,
            4 => Condition::FileStoreRejection,
            5 => Condition::FileChecksumFailure,
            6 => Condition::FilesizeError,
            7 => Condition::NakLimitReached,
            8 => Condition::InactivityDetected,
            9 => Condition::InvalidFileStructure,
            10 => Condition::CheckLimitReached,
            11 => Condition::UnsupportedChecksumType,
            14 => Condition::SuspendReceived,
            _ => Condition::CancelReceived,
        }
    }
    pub fn action_from_u8(a: u8) -> FileStoreAction {
        match a {
            0 => FileStoreAction::CreateFile,
            1 => FileStoreAction::DeleteFile,
            2 => FileStoreAction::RenameFile,
            3 => FileStoreAction::AppendFile,
            4 => FileStoreAction::ReplaceFile,
            5 => FileStoreAction::CreateDirectory,
            6 => FileStoreAction::RemoveDirectory,
            7 => FileStoreAction::DenyFile,
            _ => FileStoreAction::DenyDirectory,
        }
    }
}

pub const SRC_NAME: &str = "src.bin";
pub const DST_NAME: &str = "dst.bin";
pub const ENT_S: u16 = 1;
pub const ENT_R: u16 = 2;
pub const SEQ: u16 = 7;

#[derive(Clone, Copy, Debug, PartialEq, Eq)]
pub enum Life {
    NotCreated,
    Active,
    Suspended,
    Terminated,
    /// the loop would have `return Err(..)`ed: the task is gone without a final report
    Dead,
}
impl Life {
    pub fn over(self) -> bool {
        matches!(self, Life::Terminated | Life::Dead)
    }
    pub fn live(self) -> bool {
        matches!(self, Life::Active | Life::Suspended)
    }
}

/// Observables after a step (what monitors may look at besides PDUs and indications).
#[derive(Clone, Debug)]
pub struct Obs {
    pub now: Duration,
    pub s_life: Life,
    pub r_life: Life,
    pub s_sub: &'static str,
    pub r_sub: &'static str,
    pub s_has_pdu: bool,
    pub r_has_pdu: bool,
    pub s_until: Option<Duration>,
    pub r_until: Option<Duration>,
    pub s_progress: u64,
    pub r_progress: u64,
    pub s_cursor: Option<u64>,
    pub r_segments: Vec<(u64, u64)>,
    /// the receiver's queue of segment requests not yet sent / the sender's not yet answered
    pub r_naks: Vec<(u64, u64)>,
    pub s_naks: Vec<(u64, u64)>,
    pub r_meta: bool,
    /// receiver root: name -> Some(content) for files, None for directories
    pub r_root: BTreeMap<String, Option<Vec<u8>>>,
    pub link_sr: usize,
    pub link_rs: usize,
    pub faults_left: u8,
}
impl Obs {
    pub fn life(&self, s: Side) -> Life {
        match s {
            Side::S => self.s_life,
            Side::R => self.r_life,
        }
    }
    pub fn dest(&self) -> Option<&Vec<u8>> {
        self.r_root.get(DST_NAME).and_then(|x| x.as_ref())
    }
}

#[derive(Clone, Debug)]
pub struct StepRec {
    pub idx: usize,
    pub ev: Ev,
    pub t_before: Duration,
    /// PDUs handed to the transport in this step
    pub out: Vec<(Side, PDU)>,
    /// PDU handed to a transaction in this step
    pub delivered: Option<(Side, PDU)>,
    pub inds: Vec<(Side, Indication)>,
    /// (side, message, fatal?) — non-fatal = UnexpectedPDU (logged and ignored by the loop)
    pub err: Option<(Side, String, bool)>,
    pub panic: Option<(Side, String)>,
    /// decode(encode(pdu)) != pdu or a wrong length field for a PDU emitted in this step
    pub codec_mismatch: Option<String>,
    pub obs: Obs,
}

/// identifiers and names of the transaction a world plays (defaults: ENT_S, ENT_R, SEQ, SRC_NAME, DST_NAME)
#[derive(Clone, Debug)]
pub struct WorldIds {
    pub src_ent: VariableID,
    pub dst_ent: VariableID,
    pub seq: VariableID,
    pub src_name: String,
    pub dst_name: String,
}
impl Default for WorldIds {
    fn default() -> Self {
        WorldIds { src_ent: VariableID::from(ENT_S), dst_ent: VariableID::from(ENT_R), seq: VariableID::from(SEQ), src_name: SRC_NAME.into(), dst_name: DST_NAME.into() }
    }
}

/// events applied to a twin world from outside (daemon_world.rs): the clock and the links
/// belong to the caller
#[derive(Clone, Debug)]
pub enum ExtEv {
    Send(Side),
    Deliver(Side, PDU),
    Timeout(Side),
    User(Side, UserOp),
}

pub struct World {
    pub scn: Arc<Scenario>,
    pub src: Vec<u8>,
    pub ids: WorldIds,
    /// twin mode: emitted PDUs are not queued on the links, the clock is not advanced
    pub external: bool,
    dir: PathBuf,
    fs_s: Arc<NativeFileStore>,
    fs_r: Arc<NativeFileStore>,
    pub s: Option<SendTransaction<NativeFileStore>>,
    pub r: Option<RecvTransaction<NativeFileStore>>,
    s_dead: bool,
    r_dead: bool,
    s_final: bool,
    r_final: bool,
    s_ind_tx: Sender<Indication>,
    s_ind_rx: Receiver<Indication>,
    r_ind_tx: Sender<Indication>,
    r_ind_rx: Receiver<Indication>,
    s_out_tx: Sender<(VariableID, PDU)>,
    s_out_rx: Receiver<(VariableID, PDU)>,
    r_out_tx: Sender<(VariableID, PDU)>,
    r_out_rx: Receiver<(VariableID, PDU)>,
    pub link_sr: VecDeque<Vec<u8>>,
    pub link_rs: VecDeque<Vec<u8>>,
    pub black_sr: bool,
    pub black_rs: bool,
    pub sent_sr: BTreeSet<Vec<u8>>,
    pub sent_rs: BTreeSet<Vec<u8>>,
    pub faults_left: u8,
    pub stragglers_left: u8,
    pub user_left: Vec<u8>,
    pub idle_left: u8,
    pub inject_left: u8,
    pub waits_left: u8,
    pub blackout_left: Vec<LinkId>,
    /// the receiver reported NoError/Complete at least once (gates C04 stragglers)
    pub r_success_seen: bool,
    t0: tokio::time::Instant,
    pub steps: usize,
}

thread_local! {
    static RT: tokio::runtime::Runtime = tokio::runtime::Builder::new_current_thread()
        .enable_time()
        .start_paused(true)
        .build()
        .unwrap();
    static TDIR: PathBuf = {
        static N: std::sync::atomic::AtomicUsize = std::sync::atomic::AtomicUsize::new(0);
        let d = scratch_base().join(format!("w{}", N.fetch_add(1, std::sync::atomic::Ordering::SeqCst)));
        let _ = std::fs::create_dir_all(d.join("s"));
        let _ = std::fs::create_dir_all(d.join("r"));
        d
    };
}

/// run an async block on this thread's paused current-thread runtime
pub fn on_rt<T>(f: impl std::future::Future<Output = T>) -> T {
    RT.with(|rt| rt.block_on(f))
}

/// the reply channel of a Report request whose requester has already gone away (the harshest
/// form of the request: the daemon hands the transaction a sender nobody listens to)
fn gone_requester() -> tokio::sync::oneshot::Sender<cfdp_core::daemon::Report> {
    let (tx, rx) = tokio::sync::oneshot::channel();
    drop(rx);
    tx
}

fn clear_dir(p: &std::path::Path) {
    if let Ok(rd) = std::fs::read_dir(p) {
        for e in rd.flatten() {
            let path = e.path();
            if path.is_dir() {
                let _ = std::fs::remove_dir_all(&path);
            } else {
                let _ = std::fs::remove_file(&path);
            }
        }
    }
}

fn snapshot(root: &std::path::Path, rel: &str, out: &mut BTreeMap<String, Option<Vec<u8>>>) {
    let dir = if rel.is_empty() { root.to_path_buf() } else { root.join(rel) };
    if let Ok(rd) = std::fs::read_dir(&dir) {
        for e in rd.flatten() {
            let name = e.file_name().to_string_lossy().to_string();
            let r = if rel.is_empty() { name.clone() } else { format!("{}/{}", rel, name) };
            let p = e.path();
            if p.is_dir() {
                out.insert(r.clone(), None);
                snapshot(root, &r, out);
            } else {
                out.insert(r, Some(std::fs::read(&p).unwrap_or_default()));
            }
        }
    }
}

fn err_is_unexpected(e: &TransactionError) -> bool {
    matches!(e, TransactionError::UnexpectedPDU(..))
}

impl World {
    /// must be called inside `on_rt`
    pub fn new(scn: Arc<Scenario>) -> World {
        let dir = TDIR.with(|d| d.clone());
        Self::new_in(scn, dir, WorldIds::default(), false)
    }

    /// a world in its own directory with its own identifiers (must be called inside a runtime)
    pub fn new_in(scn: Arc<Scenario>, dir: PathBuf, ids: WorldIds, external: bool) -> World {
        let _ = std::fs::create_dir_all(dir.join("s"));
        let _ = std::fs::create_dir_all(dir.join("r"));
        clear_dir(&dir.join("s"));
        clear_dir(&dir.join("r"));
        let src = scn.source_bytes();
        if scn.file_size.is_some() {
            if scn.src_symlink {
                let real = format!("real-{}", ids.src_name);
                std::fs::write(dir.join("s").join(&real), &src).unwrap();
                std::os::unix::fs::symlink(&real, dir.join("s").join(&ids.src_name)).unwrap();
            } else {
                std::fs::write(dir.join("s").join(&ids.src_name), &src).unwrap();
            }
        }
        for (n, c) in &scn.pre_files {
            let p = dir.join("r").join(n);
            if let Some(parent) = p.parent() {
                let _ = std::fs::create_dir_all(parent);
            }
            if c == "<dir>" {
                let _ = std::fs::create_dir_all(&p);
            } else {
                std::fs::write(p, c.as_bytes()).unwrap();
            }
        }
        let fs_s = Arc::new(NativeFileStore::new(camino::Utf8Path::new(dir.join("s").to_str().unwrap())));
        let fs_r = Arc::new(NativeFileStore::new(camino::Utf8Path::new(dir.join("r").to_str().unwrap())));
        let (s_ind_tx, s_ind_rx) = channel(1000);
        let (r_ind_tx, r_ind_rx) = channel(1000);
        let (s_out_tx, s_out_rx) = channel(1);
        let (r_out_tx, r_out_rx) = channel(1);
        let mut w = World {
            src,
            ids,
            external,
            dir,
            fs_s,
            fs_r,
            s: None,
            r: None,
            s_dead: false,
            r_dead: false,
            s_final: false,
            r_final: false,
            s_ind_tx,
            s_ind_rx,
            r_ind_tx,
            r_ind_rx,
            s_out_tx,
            s_out_rx,
            r_out_tx,
            r_out_rx,
            link_sr: VecDeque::new(),
            link_rs: VecDeque::new(),
            black_sr: false,
            black_rs: false,
            sent_sr: BTreeSet::new(),
            sent_rs: BTreeSet::new(),
            faults_left: scn.faults,
            stragglers_left: scn.stragglers,
            user_left: scn.user.iter().map(|u| u.2).collect(),
            idle_left: scn.idle,
            inject_left: scn.inject_budget,
            waits_left: scn.waits,
            blackout_left: scn.blackout.clone(),
            r_success_seen: false,
            t0: tokio::time::Instant::now(),
            steps: 0,
            scn,
        };
        w.spawn_sender();
        w
    }

    fn config(&self, fsf: FileSizeFlag, crc: CRCFlag, mode: TransmissionMode, smf: SegmentedData) -> TransactionConfig {
        TransactionConfig {
            source_entity_id: self.ids.src_ent,
            destination_entity_id: self.ids.dst_ent,
            transmission_mode: mode,
            sequence_number: self.ids.seq,
            file_size_flag: fsf,
            fault_handler_override: self.scn.handler_map(),
            file_size_segment: self.scn.seg,
            crc_flag: crc,
            segment_metadata_flag: smf,
            max_count: self.scn.max_count,
            inactivity_timeout: self.scn.t_inact,
            ack_timeout: self.scn.t_ack,
            nak_timeout: self.scn.t_nak,
        }
    }

    /// mirrors Daemon::spawn_send_transaction + construct_metadata
    fn spawn_sender(&mut self) {
        let scn = self.scn.clone();
        let crc = if scn.crc { CRCFlag::Present } else { CRCFlag::NotPresent };
        let cfg = self.config(FileSizeFlag::Small, crc, scn.mode(), SegmentedData::NotPresent);
        let metadata = Metadata {
            source_filename: if scn.file_size.is_some() { self.ids.src_name.as_str().into() } else { "".into() },
            destination_filename: if scn.file_size.is_some() { self.ids.dst_name.as_str().into() } else { "".into() },
            file_size: scn.file_size.unwrap_or(0),
            filestore_requests: scn.fs_requests(),
            message_to_user: vec![],
            closure_requested: scn.closure,
            checksum_type: scn.checksum_type(),
        };
        match SendTransaction::new(cfg, metadata, self.fs_s.clone(), self.s_ind_tx.clone()) {
            Ok(t) => {
                let _ = t.send_report(None);
                self.s = Some(t);
            }
            Err(_) => self.s_dead = true,
        }
    }

    /// mirrors Daemon::spawn_receive_transaction (config taken from the first PDU's header)
    fn spawn_receiver(&mut self, h: &PDUHeader) {
        let mut cfg = self.config(h.large_file_flag, h.crc_flag, h.transmission_mode, h.segment_metadata_flag);
        cfg.source_entity_id = h.source_entity_id;
        cfg.destination_entity_id = h.destination_entity_id;
        cfg.sequence_number = h.transaction_sequence_number;
        let t = RecvTransaction::new(cfg, self.scn.nak_procedure(), self.fs_r.clone(), self.r_ind_tx.clone());
        let _ = t.send_report(None);
        self.r = Some(t);
    }

    /// forget a receive transaction whose task died: the next PDU starts a new one
    pub fn respawn_receiver(&mut self) {
        self.r = None;
        self.r_dead = false;
        self.r_final = false;
    }

    pub fn life(&self, side: Side) -> Life {
        let (dead, st) = match side {
            Side::S => (self.s_dead, self.s.as_ref().map(|t| t.verif_get_state())),
            Side::R => (self.r_dead, self.r.as_ref().map(|t| t.verif_get_state())),
        };
        if dead {
            return Life::Dead;
        }
        match st {
            None => Life::NotCreated,
            Some(TransactionState::Active) => Life::Active,
            Some(TransactionState::Suspended) => Life::Suspended,
            Some(TransactionState::Terminated) => Life::Terminated,
        }
    }
    pub fn has_pdu(&self, side: Side) -> bool {
        if !self.life(side).live() {
            return false;
        }
        match side {
            Side::S => self.s.as_ref().map_or(false, |t| t.verif_has_pdu_to_send()),
            Side::R => self.r.as_ref().map_or(false, |t| t.verif_has_pdu_to_send()),
        }
    }
    pub fn until(&self, side: Side) -> Option<Duration> {
        if !self.life(side).live() {
            return None;
        }
        let d = match side {
            Side::S => self.s.as_ref().map(|t| t.verif_until_timeout()),
            Side::R => self.r.as_ref().map(|t| t.verif_until_timeout()),
        }?;
        if d == Duration::MAX {
            None
        } else {
            Some(d)
        }
    }
    fn link(&mut self, l: LinkId) -> &mut VecDeque<Vec<u8>> {
        match l {
            LinkId::SR => &mut self.link_sr,
            LinkId::RS => &mut self.link_rs,
        }
    }
    fn link_ref(&self, l: LinkId) -> &VecDeque<Vec<u8>> {
        match l {
            LinkId::SR => &self.link_sr,
            LinkId::RS => &self.link_rs,
        }
    }
    fn black(&self, l: LinkId) -> bool {
        match l {
            LinkId::SR => self.black_sr,
            LinkId::RS => self.black_rs,
        }
    }
    fn sent(&self, l: LinkId) -> &BTreeSet<Vec<u8>> {
        match l {
            LinkId::SR => &self.sent_sr,
            LinkId::RS => &self.sent_rs,
        }
    }
    /// can anything still be handed to `side`? (the receiver is spawned by the first PDU; a receive
    /// task that died of an error is replaced by a fresh one on the next PDU, as
    /// Daemon::forward_pdu does when the command channel of the old task is closed)
    fn target_open(&self, side: Side) -> bool {
        match self.life(side) {
            Life::NotCreated => side == Side::R,
            Life::Dead => side == Side::R,
            l => l.live(),
        }
    }

    fn user_idx(&self, side: Side, op: UserOp) -> Option<usize> {
        self.scn.user.iter().position(|u| u.0 == side && u.1 == op)
    }

    pub fn inject_pdu(&self, spec: &InjectSpec) -> (Side, PDU) {
        let fsf = FileSizeFlag::Small;
        let crc = if self.scn.crc { CRCFlag::Present } else { CRCFlag::NotPresent };
        let (to, dir, payload) = match spec {
            InjectSpec::Data { offset, len } => {
                let file_data: Vec<u8> = (*offset..*offset + *len).map(|i| self.src.get(i as usize).copied().unwrap_or(0xEE)).collect();
                (Side::R, Direction::ToReceiver, PDUPayload::FileData(cfdp_core::pdu::FileDataPDU::Unsegmented(cfdp_core::pdu::UnsegmentedFileData { offset: *offset, file_data })))
            }
            InjectSpec::Nak(reqs) => {
                let segment_requests: Vec<SegmentRequestForm> =
                    reqs.iter().map(|(a, b)| SegmentRequestForm { start_offset: *a, end_offset: *b }).collect();
                let nak = NegativeAcknowledgmentPDU {
                    start_of_scope: reqs.iter().map(|r| r.0).min().unwrap_or(0),
                    end_of_scope: reqs.iter().map(|r| r.1).max().unwrap_or(0),
                    segment_requests,
                };
                (Side::S, Direction::ToSender, PDUPayload::Directive(Operations::Nak(nak)))
            }
            InjectSpec::BadEof { checksum_xor, size_delta } => {
                let good = crate::refck::modular_checksum(&self.src);
                let ck = if self.scn.null_checksum { 0 } else { good } ^ checksum_xor;
                let eof = EndOfFile {
                    condition: Condition::NoError,
                    checksum: ck,
                    file_size: (self.scn.file_size.unwrap_or(0) as i64 + size_delta) as u64,
                    fault_location: None,
                };
                (Side::R, Direction::ToReceiver, PDUPayload::Directive(Operations::EoF(eof)))
            }
        };
        let header = PDUHeader {
            version: U3::One,
            pdu_type: if matches!(payload, PDUPayload::FileData(_)) { PDUType::FileData } else { PDUType::FileDirective },
            direction: dir,
            transmission_mode: self.scn.mode(),
            crc_flag: crc,
            large_file_flag: fsf,
            pdu_data_field_length: payload.encoded_len(fsf),
            segmentation_control: SegmentationControl::NotPreserved,
            segment_metadata_flag: SegmentedData::NotPresent,
            source_entity_id: VariableID::from(ENT_S),
            transaction_sequence_number: VariableID::from(SEQ),
            destination_entity_id: VariableID::from(ENT_R),
        };
        (to, PDU { header, payload })
    }

    /// The enabled events, default (no-deviation) choices first.
    pub fn enabled(&self) -> Vec<Ev> {
        let mut v = vec![];
        if self.steps >= self.scn.max_depth {
            return v;
        }
        let scn = &self.scn;
        // SEND branch
        for side in [Side::S, Side::R] {
            if self.has_pdu(side) {
                v.push(Ev::Send(side));
            }
        }
        // RECV branch: deliveries
        let sends_pending = !v.is_empty();
        let mut in_flight = false;
        for l in [LinkId::SR, LinkId::RS] {
            if !self.link_ref(l).is_empty() {
                v.push(Ev::Deliver(l));
                in_flight = true;
            }
        }
        // TIMEOUT branch
        let su = self.until(Side::S);
        let ru = self.until(Side::R);
        let min = match (su, ru) {
            (Some(a), Some(b)) => Some(a.min(b)),
            (a, b) => a.or(b),
        };
        if let Some(m) = min {
            for (side, u) in [(Side::S, su), (Side::R, ru)] {
                if u == Some(m) {
                    if m.is_zero() || (!sends_pending && !in_flight) {
                        v.push(Ev::Timeout(side, false));
                    } else if !sends_pending && self.faults_left > 0 && scn.k_delay {
                        // a delay fault is the *link* sitting on PDUs in flight past a timer. Time
                        // does not pass while a transaction has a PDU ready to hand to its transport
                        // (a local transport stalled for a whole timer period is not modelled; the
                        // real loop sends as soon as the slot is free)
                        v.push(Ev::Timeout(side, true));
                    }
                }
            }
        }
        // link latency shorter than every running timer
        if self.waits_left > 0 && in_flight && !sends_pending && min.map_or(true, |m| m > Duration::from_millis(scn.wait_ms)) {
            v.push(Ev::Wait);
        }
        // link faults (head only)
        if self.faults_left > 0 {
            for l in [LinkId::SR, LinkId::RS] {
                let n = self.link_ref(l).len();
                if n == 0 {
                    continue;
                }
                if scn.k_drop {
                    v.push(Ev::Drop(l));
                }
                if scn.k_dup {
                    v.push(Ev::Dup(l, false));
                    if n > 1 {
                        v.push(Ev::Dup(l, true));
                    }
                }
                if scn.k_overtake {
                    for i in 1..n.min(4) {
                        v.push(Ev::Overtake(l, i as u8));
                    }
                }
                if scn.k_corrupt && scn.crc {
                    v.push(Ev::Corrupt(l, 0));
                    v.push(Ev::Corrupt(l, 1));
                    v.push(Ev::Corrupt(l, 2));
                }
            }
        }
        // stragglers
        if self.stragglers_left > 0 && (!scn.stragglers_after_success || self.r_success_seen) {
            for l in [LinkId::SR, LinkId::RS] {
                if self.target_open(l.to()) && !self.black(l) {
                    for i in 0..self.sent(l).len() {
                        v.push(Ev::Straggler(l, i as u16));
                    }
                }
            }
        }
        // user primitives
        for (i, (side, op, _)) in scn.user.iter().enumerate() {
            if self.user_left[i] == 0 || !self.life(*side).live() {
                continue;
            }
            let life = self.life(*side);
            let ok = match op {
                UserOp::Suspend => life == Life::Active,
                UserOp::Resume => life == Life::Suspended,
                UserOp::PromptNak | UserOp::PromptKeepAlive => *side == Side::S,
                _ => true,
            };
            if ok {
                v.push(Ev::User(*side, *op));
            }
        }
        // blackout
        for l in &self.blackout_left {
            v.push(Ev::Blackout(*l));
        }
        // injections
        if self.inject_left > 0 && !(scn.inject_before_success && self.r_success_seen) {
            for (i, spec) in scn.inject.iter().enumerate() {
                let to = match spec {
                    InjectSpec::Nak(_) => Side::S,
                    InjectSpec::BadEof { .. } | InjectSpec::Data { .. } => Side::R,
                };
                if self.life(to).live() {
                    v.push(Ev::Inject(i as u8));
                }
            }
        }
        // idle: time passes while nothing is armed
        if self.idle_left > 0 && min.is_none() && (self.life(Side::S) == Life::Suspended || self.life(Side::R) == Life::Suspended) {
            v.push(Ev::Idle(1));
            v.push(Ev::Idle(10));
        }
        v
    }

    async fn drain(&mut self, rec: &mut StepRec) {
        tokio::task::yield_now().await;
        tokio::task::yield_now().await;
        while let Ok(i) = self.s_ind_rx.try_recv() {
            rec.inds.push((Side::S, i));
        }
        while let Ok(i) = self.r_ind_rx.try_recv() {
            if let Indication::Finished(f) = &i {
                use cfdp_core::pdu::DeliveryCode;
                if f.report.condition == Condition::NoError && f.delivery_code == DeliveryCode::Complete {
                    self.r_success_seen = true;
                }
            }
            rec.inds.push((Side::R, i));
        }
    }

    /// after a handler call: collect what it handed to the transport, put it on the link
    fn collect_out(&mut self, side: Side, rec: &mut StepRec) {
        let got = match side {
            Side::S => self.s_out_rx.try_recv().ok(),
            Side::R => self.r_out_rx.try_recv().ok(),
        };
        if let Some((_dest, pdu)) = got {
            let bytes = pdu.clone().encode();
            // header length / round trip consistency of everything that is emitted
            let hdr_len = pdu.header.clone().encode().len();
            let crc_len = if pdu.header.crc_flag == CRCFlag::Present { 2 } else { 0 };
            let payload_len = bytes.len() - hdr_len - crc_len;
            match PDU::decode(&mut bytes.as_slice()) {
                Ok(back) if back == pdu => {}
                Ok(back) => rec.codec_mismatch = Some(format!("decode(encode(p)) != p: {:?} vs {:?}", back, pdu)),
                Err(e) => rec.codec_mismatch = Some(format!("decode(encode(p)) failed: {} for {:?}", e, pdu)),
            }
            if pdu.header.pdu_data_field_length as usize != payload_len {
                rec.codec_mismatch = Some(format!(
                    "pdu_data_field_length {} != payload length {} for {:?}",
                    pdu.header.pdu_data_field_length, payload_len, pdu
                ));
            }
            let l = LinkId::from_side(side);
            match l {
                LinkId::SR => self.sent_sr.insert(bytes.clone()),
                LinkId::RS => self.sent_rs.insert(bytes.clone()),
            };
            if !self.external && !self.black(l) && self.target_open(l.to()) {
                self.link(l).push_back(bytes);
            }
            rec.out.push((side, pdu));
        }
    }

    fn after_handler(&mut self, side: Side, res: Result<Result<(), TransactionError>, String>, rec: &mut StepRec) {
        match res {
            Err(p) => {
                rec.panic = Some((side, p));
                self.kill(side);
            }
            Ok(Err(e)) => {
                let unexpected = err_is_unexpected(&e);
                rec.err = Some((side, e.to_string(), !unexpected));
                if !unexpected {
                    self.kill(side);
                }
            }
            Ok(Ok(())) => {}
        }
        // the loop leaves when the state is Terminated and sends a last report
        match side {
            Side::S => {
                if !self.s_dead && !self.s_final {
                    if let Some(t) = &self.s {
                        if t.verif_get_state() == TransactionState::Terminated {
                            let _ = t.send_report(None);
                            self.s_final = true;
                        }
                    }
                }
            }
            Side::R => {
                if !self.r_dead && !self.r_final {
                    if let Some(t) = &self.r {
                        if t.verif_get_state() == TransactionState::Terminated {
                            let _ = t.send_report(None);
                            self.r_final = true;
                        }
                    }
                }
            }
        }
        // nothing can reach a finished transaction any more
        if self.life(Side::S).over() {
            self.link_rs.clear();
        }
        if self.life(Side::R) == Life::Terminated {
            self.link_sr.clear();
        }
    }
    fn kill(&mut self, side: Side) {
        match side {
            Side::S => self.s_dead = true,
            Side::R => self.r_dead = true,
        }
    }

    fn deliver_pdu(&mut self, to: Side, pdu: PDU, rec: &mut StepRec) {
        if !self.target_open(to) {
            return;
        }
        if to == Side::R && self.r_dead {
            self.respawn_receiver();
        }
        if to == Side::R && self.r.is_none() {
            self.spawn_receiver(&pdu.header);
        }
        rec.delivered = Some((to, pdu.clone()));
        let res = match to {
            Side::S => {
                let t = self.s.as_mut().unwrap();
                catch(|| t.process_pdu(pdu))
            }
            Side::R => {
                let t = self.r.as_mut().unwrap();
                catch(|| t.process_pdu(pdu))
            }
        };
        self.after_handler(to, res, rec);
    }

    fn deliver_bytes(&mut self, l: LinkId, bytes: &[u8], rec: &mut StepRec) {
        // what the transport does with a datagram: decode it, forward it if that worked
        if let Ok(pdu) = PDU::decode(&mut &bytes[..]) {
            self.deliver_pdu(l.to(), pdu, rec);
        }
    }

    pub fn observe(&self) -> Obs {
        let mut r_root = BTreeMap::new();
        snapshot(&self.dir.join("r"), "", &mut r_root);
        Obs {
            now: tokio::time::Instant::now().duration_since(self.t0),
            s_life: self.life(Side::S),
            r_life: self.life(Side::R),
            s_sub: self.s.as_ref().map_or("-", |t| t.verif_substate()),
            r_sub: self.r.as_ref().map_or("-", |t| t.verif_substate()),
            s_has_pdu: self.has_pdu(Side::S),
            r_has_pdu: self.has_pdu(Side::R),
            s_until: self.until(Side::S),
            r_until: self.until(Side::R),
            s_progress: self.s.as_ref().map_or(0, |t| t.verif_progress()),
            r_progress: self.r.as_ref().map_or(0, |t| t.verif_progress()),
            s_cursor: self.s.as_ref().and_then(|t| t.verif_cursor()),
            r_segments: self.r.as_ref().map_or(vec![], |t| t.verif_segments()),
            r_naks: self.r.as_ref().map_or(vec![], |t| t.verif_nak_queue()),
            s_naks: self.s.as_ref().map_or(vec![], |t| t.verif_nak_queue()),
            r_meta: self.r.as_ref().map_or(false, |t| t.verif_metadata_received()),
            r_root,
            link_sr: self.link_sr.len(),
            link_rs: self.link_rs.len(),
            faults_left: self.faults_left,
        }
    }

    /// apply one event (must be enabled); must run inside `on_rt`
    pub async fn apply(&mut self, ev: &Ev) -> StepRec {
        let t_before = tokio::time::Instant::now().duration_since(self.t0);
        let mut rec = StepRec {
            idx: self.steps,
            ev: ev.clone(),
            t_before,
            out: vec![],
            delivered: None,
            inds: vec![],
            err: None,
            panic: None,
            codec_mismatch: None,
            obs: Obs {
                now: t_before,
                s_life: Life::NotCreated,
                r_life: Life::NotCreated,
                s_sub: "-",
                r_sub: "-",
                s_has_pdu: false,
                r_has_pdu: false,
                s_until: None,
                r_until: None,
                s_progress: 0,
                r_progress: 0,
                s_cursor: None,
                r_segments: vec![],
                r_naks: vec![],
                s_naks: vec![],
                r_meta: false,
                r_root: BTreeMap::new(),
                link_sr: 0,
                link_rs: 0,
                faults_left: 0,
            },
        };
        self.steps += 1;
        match ev {
            Ev::Send(side) => {
                let res = match side {
                    Side::S => {
                        let permit = self.s_out_tx.try_reserve().expect("slot free");
                        let t = self.s.as_mut().unwrap();
                        catch(|| t.verif_send_pdu(permit))
                    }
                    Side::R => {
                        let permit = self.r_out_tx.try_reserve().expect("slot free");
                        let t = self.r.as_mut().unwrap();
                        catch(|| t.verif_send_pdu(permit))
                    }
                };
                self.collect_out(*side, &mut rec);
                self.after_handler(*side, res, &mut rec);
            }
            Ev::Deliver(l) => {
                let b = self.link(*l).pop_front().unwrap();
                self.deliver_bytes(*l, &b, &mut rec);
            }
            Ev::Overtake(l, i) => {
                self.faults_left -= 1;
                let b = self.link(*l).remove(*i as usize).unwrap();
                self.deliver_bytes(*l, &b, &mut rec);
            }
            Ev::Drop(l) => {
                self.faults_left -= 1;
                self.link(*l).pop_front();
            }
            Ev::Dup(l, tail) => {
                self.faults_left -= 1;
                let b = self.link(*l).pop_front().unwrap();
                if *tail {
                    self.link(*l).push_back(b.clone());
                } else {
                    self.link(*l).push_front(b.clone());
                }
                self.deliver_bytes(*l, &b, &mut rec);
            }
            Ev::Corrupt(l, which) => {
                self.faults_left -= 1;
                let mut b = self.link(*l).pop_front().unwrap();
                // flip a byte after the 4 fixed header octets: first data-field byte or the last byte
                // (a low-order octet: the 4th of the data field — the least significant octet of a
                // file-data offset — or the very last one, so that a PDU accepted in spite of the
                // damage stays inside the small files of the scenarios)
                let hl = 4 + 3 * 2;
                let pos = match *which {
                    0 => usize::min(hl + 3, b.len() - 1),
                    1 => b.len() - 1,
                    // the last octet in front of the CRC: a payload octet of a file-data PDU
                    _ => b.len().saturating_sub(3).max(hl.min(b.len() - 1)),
                };
                b[pos] ^= 0x5a;
                self.deliver_bytes(*l, &b, &mut rec);
            }
            Ev::Straggler(l, i) => {
                self.stragglers_left -= 1;
                let b = self.sent(*l).iter().nth(*i as usize).unwrap().clone();
                self.deliver_bytes(*l, &b, &mut rec);
            }
            Ev::Timeout(side, costs) => {
                if *costs {
                    self.faults_left -= 1;
                }
                let d = self.until(*side).unwrap();
                if !d.is_zero() {
                    tokio::time::advance(d).await;
                }
                let res = match side {
                    Side::S => {
                        let t = self.s.as_mut().unwrap();
                        catch(|| t.handle_timeout())
                    }
                    Side::R => {
                        let t = self.r.as_mut().unwrap();
                        catch(|| t.handle_timeout())
                    }
                };
                self.after_handler(*side, res, &mut rec);
            }
            Ev::Idle(k) => {
                self.idle_left -= 1;
                let period = [self.scn.t_inact, self.scn.t_ack, self.scn.t_nak].into_iter().max().unwrap() as u64;
                tokio::time::advance(Duration::from_secs(period * *k as u64)).await;
            }
            Ev::User(side, op) => {
                let i = self.user_idx(*side, *op).unwrap();
                self.user_left[i] -= 1;
                let res: Result<Result<(), TransactionError>, String> = match side {
                    Side::S => {
                        let t = self.s.as_mut().unwrap();
                        catch(|| match op {
                            UserOp::Cancel => t.cancel(),
                            UserOp::Suspend => t.suspend(),
                            UserOp::Resume => t.resume(),
                            UserOp::Report => t.send_report(Some(gone_requester())),
                            UserOp::PromptNak => {
                                t.verif_prepare_prompt(NakOrKeepAlive::Nak);
                                Ok(())
                            }
                            UserOp::PromptKeepAlive => {
                                t.verif_prepare_prompt(NakOrKeepAlive::KeepAlive);
                                Ok(())
                            }
                        })
                    }
                    Side::R => {
                        let t = self.r.as_mut().unwrap();
                        catch(|| match op {
                            UserOp::Cancel => t.cancel(),
                            UserOp::Suspend => t.suspend(),
                            UserOp::Resume => t.resume(),
                            UserOp::Report => t.send_report(Some(gone_requester())),
                            _ => Ok(()), // prompt is a no-op for a receive transaction (lib.rs)
                        })
                    }
                };
                self.after_handler(*side, res, &mut rec);
            }
            Ev::Blackout(l) => {
                self.blackout_left.retain(|x| x != l);
                match l {
                    LinkId::SR => {
                        self.black_sr = true;
                        self.link_sr.clear();
                    }
                    LinkId::RS => {
                        self.black_rs = true;
                        self.link_rs.clear();
                    }
                }
            }
            Ev::Wait => {
                self.waits_left -= 1;
                tokio::time::advance(Duration::from_millis(self.scn.wait_ms)).await;
            }
            Ev::Inject(i) => {
                self.inject_left -= 1;
                let spec = self.scn.inject[*i as usize].clone();
                let (to, pdu) = self.inject_pdu(&spec);
                // through the codec, as any PDU from the network
                let bytes = pdu.encode();
                let l = match to {
                    Side::S => LinkId::RS,
                    Side::R => LinkId::SR,
                };
                self.deliver_bytes(l, &bytes, &mut rec);
            }
        }
        self.drain(&mut rec).await;
        rec.obs = self.observe();
        rec
    }

    /// collect the indications raised so far (after the caller has yielded to the runtime)
    pub fn drain_now(&mut self) -> Vec<Indication> {
        let mut v = vec![];
        while let Ok(i) = self.s_ind_rx.try_recv() {
            v.push(i);
        }
        while let Ok(i) = self.r_ind_rx.try_recv() {
            v.push(i);
        }
        v
    }

    /// twin mode: apply an event observed in the real system (no link, no clock handling)
    pub async fn apply_ext(&mut self, e: &ExtEv) -> StepRec {
        let pseudo = match e {
            ExtEv::Send(s) => Ev::Send(*s),
            ExtEv::Deliver(s, _) => Ev::Deliver(if *s == Side::R { LinkId::SR } else { LinkId::RS }),
            ExtEv::Timeout(s) => Ev::Timeout(*s, false),
            ExtEv::User(s, op) => Ev::User(*s, *op),
        };
        let t_before = tokio::time::Instant::now().duration_since(self.t0);
        let mut rec = StepRec { idx: self.steps, ev: pseudo, t_before, out: vec![], delivered: None, inds: vec![], err: None, panic: None, codec_mismatch: None, obs: self.observe() };
        self.steps += 1;
        match e {
            ExtEv::Send(side) => {
                let res = match side {
                    Side::S => {
                        let permit = self.s_out_tx.try_reserve().expect("slot free");
                        let t = self.s.as_mut().unwrap();
                        catch(|| t.verif_send_pdu(permit))
                    }
                    Side::R => {
                        let permit = self.r_out_tx.try_reserve().expect("slot free");
                        let t = self.r.as_mut().unwrap();
                        catch(|| t.verif_send_pdu(permit))
                    }
                };
                self.collect_out(*side, &mut rec);
                self.after_handler(*side, res, &mut rec);
            }
            ExtEv::Deliver(side, pdu) => self.deliver_pdu(*side, pdu.clone(), &mut rec),
            ExtEv::Timeout(side) => {
                let res = match side {
                    Side::S => {
                        let t = self.s.as_mut().unwrap();
                        catch(|| t.handle_timeout())
                    }
                    Side::R => {
                        let t = self.r.as_mut().unwrap();
                        catch(|| t.handle_timeout())
                    }
                };
                self.after_handler(*side, res, &mut rec);
            }
            ExtEv::User(side, op) => {
                let res: Result<Result<(), TransactionError>, String> = match side {
                    Side::S => {
                        let t = self.s.as_mut().unwrap();
                        catch(|| match op {
                            UserOp::Cancel => t.cancel(),
                            UserOp::Suspend => t.suspend(),
                            UserOp::Resume => t.resume(),
                            UserOp::Report => t.send_report(None),
                            UserOp::PromptNak => {
                                t.verif_prepare_prompt(NakOrKeepAlive::Nak);
                                Ok(())
                            }
                            UserOp::PromptKeepAlive => {
                                t.verif_prepare_prompt(NakOrKeepAlive::KeepAlive);
                                Ok(())
                            }
                        })
                    }
                    Side::R => {
                        let t = self.r.as_mut().unwrap();
                        catch(|| match op {
                            UserOp::Cancel => t.cancel(),
                            UserOp::Suspend => t.suspend(),
                            UserOp::Resume => t.resume(),
                            UserOp::Report => t.send_report(None),
                            _ => Ok(()),
                        })
                    }
                };
                self.after_handler(*side, res, &mut rec);
            }
        }
        self.drain(&mut rec).await;
        rec.obs = self.observe();
        rec
    }

    /// Canonical identity of the state (everything that can influence the future), without the
    /// monitor memory (the engine appends that).
    pub fn key_string(&self) -> String {
        let fp = |life: Life, f: Option<String>| match life {
            Life::Terminated => "Terminated".to_string(),
            Life::Dead => "Dead".to_string(),
            Life::NotCreated => "None".to_string(),
            _ => f.unwrap_or_default(),
        };
        let s = fp(self.life(Side::S), self.s.as_ref().map(|t| t.verif_fingerprint()));
        let r = fp(self.life(Side::R), self.r.as_ref().map(|t| t.verif_fingerprint()));
        let mut root = BTreeMap::new();
        snapshot(&self.dir.join("r"), "", &mut root);
        let hexq = |q: &VecDeque<Vec<u8>>| q.iter().map(|b| hex(b)).collect::<Vec<_>>().join(",");
        let sent = if self.stragglers_left > 0 {
            format!(
                "{}|{}",
                self.sent_sr.iter().map(|b| hex(b)).collect::<Vec<_>>().join(","),
                self.sent_rs.iter().map(|b| hex(b)).collect::<Vec<_>>().join(",")
            )
        } else {
            String::new()
        };
        format!(
            "{}\n{}\nSR[{}]{}\nRS[{}]{}\nsent[{}]\nB f={} st={} u={:?} idle={} inj={} w={} bl={:?} succ={} depthcap={}\nroot={:?}",
            s,
            r,
            hexq(&self.link_sr),
            self.black_sr,
            hexq(&self.link_rs),
            self.black_rs,
            sent,
            self.faults_left,
            self.stragglers_left,
            self.user_left,
            self.idle_left,
            self.inject_left,
            self.waits_left,
            self.blackout_left,
            self.r_success_seen && (self.scn.stragglers_after_success || self.scn.inject_before_success),
            self.steps >= self.scn.max_depth,
            root.iter().map(|(k, v)| format!("{}={}", k, v.as_ref().map_or("<dir>".to_string(), |b| hex(b)))).collect::<Vec<_>>(),
        )
    }
}

/// short human description of a PDU (for details and samples)
pub fn pdu_brief(p: &PDU) -> String {
    match &p.payload {
        PDUPayload::FileData(fd) => {
            let (o, d) = match fd {
                cfdp_core::pdu::FileDataPDU::Unsegmented(u) => (u.offset, &u.file_data),
                cfdp_core::pdu::FileDataPDU::Segmented(s) => (s.offset, &s.file_data),
            };
            format!("Data[{}+{}]", o, d.len())
        }
        PDUPayload::Directive(op) => match op {
            Operations::EoF(e) => format!("EOF({:?},size={},ck={:08x})", e.condition, e.file_size, e.checksum),
            Operations::Finished(f) => format!("Finished({:?},{:?},{:?},{}resp)", f.condition, f.delivery_code, f.file_status, f.filestore_response.len()),
            Operations::Ack(a) => format!("ACK({:?},{:?})", a.directive, a.condition),
            Operations::Metadata(m) => format!("Metadata(size={},closure={})", m.file_size, m.closure_requested),
            Operations::Nak(n) => format!(
                "NAK[{}..{}]{:?}",
                n.start_of_scope,
                n.end_of_scope,
                n.segment_requests.iter().map(|r| (r.start_offset, r.end_offset)).collect::<Vec<_>>()
            ),
            Operations::Prompt(p) => format!("Prompt({:?})", p.nak_or_keep_alive),
            Operations::KeepAlive(k) => format!("KeepAlive({})", k.progress),
        },
    }
}

pub fn ind_brief(i: &Indication) -> String {
    match i {
        Indication::Finished(f) => format!("Finished({:?},{:?},{:?},{}resp)", f.report.condition, f.delivery_code, f.file_status, f.filestore_responses.len()),
        Indication::Fault(f) => format!("Fault({:?},progress={})", f.condition, f.progress),
        Indication::Abandon(f) => format!("Abandon({:?},progress={})", f.condition, f.progress),
        Indication::Suspended(s) => format!("Suspended({:?})", s.condition),
        Indication::Resumed(r) => format!("Resumed(progress={})", r.progress),
        Indication::Report(r) => format!("Report({:?},{:?},{:?})", r.state, r.status, r.condition),
        Indication::Transaction(_) => "Transaction".into(),
        Indication::EoFSent(_) => "EoFSent".into(),
        Indication::EoFRecv(_) => "EoFRecv".into(),
        Indication::MetadataRecv(m) => format!("MetadataRecv(size={})", m.file_size),
        Indication::FileSegmentRecv(f) => format!("FileSegmentRecv({}+{})", f.offset, f.length),
    }
}

pub fn step_brief(r: &StepRec) -> String {
    let mut s = format!("#{} t={:?} {:?}", r.idx, r.obs.now, r.ev);
    if let Some((to, p)) = &r.delivered {
        s.push_str(&format!(" ->{:?} {}", to, pdu_brief(p)));
    }
    for (side, p) in &r.out {
        s.push_str(&format!(" | {:?} sends {}", side, pdu_brief(p)));
    }
    for (side, i) in &r.inds {
        if !matches!(i, Indication::Report(_)) {
            s.push_str(&format!(" | {:?}! {}", side, ind_brief(i)));
        }
    }
    if let Some((side, e, fatal)) = &r.err {
        s.push_str(&format!(" | {:?} err{} {}", side, if *fatal { "(fatal)" } else { "" }, e));
    }
    if let Some((side, p)) = &r.panic {
        s.push_str(&format!(" | {:?} PANIC {}", side, p));
    }
    s.push_str(&format!(" [S:{:?}/{} R:{:?}/{}]", r.obs.s_life, r.obs.s_sub, r.obs.r_life, r.obs.r_sub));
    s
}
