//! Scenario lists and drivers of the E1 (txn-mc) checks.
use crate::bfs::*;
use crate::common::*;
use crate::mons;
use crate::world::*;
use rayon::prelude::*;
use serde_json::json;

fn run_all(scns: Vec<Scenario>, mk: &MkMon, tier: Tier) -> Vec<ExploreResult> {
    // scenarios run one after another; each exploration uses all cores for its frontier
    let opts = Opts::for_tier(tier);
    // debugging aid (never set by the registered commands): run only the scenarios whose name
    // contains $VERIF_ONLY
    let only = std::env::var("VERIF_ONLY").ok();
    // once a scenario has produced a violation the verdict of the check is settled: the remaining
    // scenarios still run (other signatures), but with a short wall cap, so that a tree on which
    // every state space explodes does not keep the check busy for an hour
    let mut found = false;
    let mut out = vec![];
    for s in scns.into_iter().filter(|s| only.as_ref().map_or(true, |o| s.name.contains(o.as_str()))) {
        let mut o = Opts { max_states: opts.max_states, audit_cap: opts.audit_cap, wall_cap_s: opts.wall_cap_s };
        if found {
            o.wall_cap_s = o.wall_cap_s.min(tier.pick(15.0, 120.0));
        }
        let r = explore(s, mk, &o);
        if !r.violations.is_empty() || !r.generic.is_empty() {
            found = true;
        }
        out.push(r);
    }
    out
}

pub fn replay_e1(args: &Args, mk: &MkMon) -> Report {
    let v: serde_json::Value = serde_json::from_str(&std::fs::read_to_string(args.replay.as_ref().unwrap()).expect("replay file")).unwrap();
    if v["case"]["engine"] == "daemon-dbx" {
        // a finding of this check's real-daemon batch
        return crate::props_e2::replay_dbx(&v);
    }
    let scn: Scenario = serde_json::from_value(v["case"]["scenario"].clone()).expect("scenario");
    let events: Vec<Ev> = serde_json::from_value(v["case"]["events"].clone()).expect("events");
    let scn = std::sync::Arc::new(scn);
    let mut rep = Report::new("model_checking");
    println!("replaying {} events of scenario {}", events.len(), scn.name);
    println!("{}", trace_text(&scn, &events, mk));
    rep.coverage = json!({"states": events.len() + 1, "transitions": events.len().max(1), "traces_validated_against_impl": 1, "samples": [format!("{:?}", events)]});
    // re-evaluate: explore nothing, just report whether the recorded clause still fails on this history
    let want = v["signature"].as_str().unwrap_or("").to_string();
    let mut hist: Vec<Ev> = vec![];
    let mut found = false;
    for e in &events {
        hist.push(e.clone());
    }
    if let Ok(run) = replay(&scn, &hist, mk, false) {
        let mut all: Vec<MonViolation> = run.last_viols;
        let mut mon = run.mon;
        let enabled = run.enabled.clone();
        if enabled.is_empty() {
            let src = run.world.src.clone();
            let mut ctx = Ctx { scn: &scn, src: &src, out: vec![], armed: vec![] };
            mon.terminal(&run.recs.last().unwrap().obs, &mut ctx);
            all.extend(ctx.out);
        }
        for v2 in all {
            let sig = format!("{}|{}|{}", v2.clause, scn.class(), v2.sig);
            println!("clause fails on this history: {}", sig);
            if sig == want {
                found = true;
                rep.violations.push(Violation { clause: v2.clause.into(), signature: sig, detail: v2.detail, replay: v["case"].clone() });
            }
        }
    }
    if !found {
        println!("the recorded clause ({}) does not fail on this tree for this history (generic clauses — deadlock, livelock, panic — are re-checked by a full run)", want);
    }
    rep
}

const SIZES_Q: [u64; 7] = [0, 1, 15, 16, 17, 32, 40];

fn naks(tier: Tier) -> Vec<(bool, u64)> {
    tier.pick(vec![(false, 0), (true, 0), (false, 5)], vec![(false, 0), (false, 5), (true, 0), (true, 5)])
}

fn all_kinds(s: &mut Scenario, f: u8) {
    s.faults = f;
    s.k_drop = true;
    s.k_dup = true;
    s.k_overtake = true;
    s.k_delay = true;
}

fn c02_scenarios(tier: Tier) -> Vec<Scenario> {
    let mut scns = vec![];
    let sizes: Vec<u64> = tier.pick(SIZES_Q.to_vec(), vec![0, 1, 15, 16, 17, 32, 47]);
    for (imm, delay) in naks(tier) {
        for &size in sizes.iter() {
            let nm = format!("ack size={} nak={}{}", size, if imm { "imm" } else { "def" }, delay);
            let mut s = Scenario::base(&format!("c02 {} F=1 duot", nm));
            s.file_size = Some(size);
            s.nak_immediate = imm;
            s.nak_delay_s = delay;
            all_kinds(&mut s, 1);
            // quick: two faults on the small files of the default procedure
            // (and on the two-segment file of the immediate procedure, where a NAK can reach the
            // sender before or after the EOF went out)
            let f2 = tier == Tier::Thorough || (delay == 0 && size <= 17 && (!imm || size == 17));
            if f2 {
                let mut s2 = s.clone();
                s2.name = format!("c02 {} F=2 duot", nm);
                all_kinds(&mut s2, 2);
                scns.push(s2);
            } else {
                scns.push(s.clone());
            }
            if tier == Tier::Thorough && (size == 17 || size == 47 || size == 0) {
                // F = 3 < limit with drops only, and the CRC variant of the link
                let mut s3 = s.clone();
                s3.name = format!("c02 {} F=3 d", nm);
                s3.faults = 3;
                s3.k_dup = false;
                s3.k_overtake = false;
                s3.k_delay = false;
                s3.max_count = 4; // "fewer consecutive losses than the limit": 3 < 4
                scns.push(s3);
            }
            if size == 17 {
                let mut s4 = s.clone();
                s4.name = format!("c02 {} F=1 duotc crc", nm);
                s4.crc = true;
                s4.k_corrupt = true;
                scns.push(s4);
            }
        }
    }
    // segment sizes at and below the size of one NAK segment request (2 x 4 octets of scope plus
    // 2 x 4 per request): how many requests "fit" is then 1, 0 or negative
    for seg in tier.pick(vec![8u16, 4], vec![12u16, 8, 7, 4, 1]) {
        let size = (2 * seg as u64 + 1).min(17);
        let mut s = Scenario::base(&format!("c02 ack seg={} size={} nak=def0 F=1 do", seg, size));
        s.seg = seg;
        s.file_size = Some(size);
        s.faults = 1;
        s.k_drop = true;
        s.k_overtake = true;
        scns.push(s);
    }
    scns
}

pub fn c02(args: &Args) -> Report {
    let mk: &MkMon = &|_s: &Scenario| Box::new(mons::C02::default());
    if args.replay.is_some() {
        return replay_e1(args, mk);
    }
    let res = run_all(c02_scenarios(args.tier), mk, args.tier);
    with_conformance2(fold(res, &GEN, 0, json!({})), &[(true, false)], &["transfer-not-completed"])
}

/// a small batch of real-daemon schedules validated against the E1 loop model, run with every E1
/// check so that its evidence states how many model traces were validated against the implementation
fn with_conformance(rep: Report, modes: &[(bool, bool)]) -> Report {
    with_conformance2(rep, modes, &[])
}

/// `direct`: also report what the twin-independent oracles of the daemon runs found, by clause
/// (C02: a single acknowledged transfer with at most one loss and no delay must complete on the
/// real daemons; C07: the sizes in the Metadata and EOF PDUs leaving a daemon are the source's)
fn with_conformance2(mut rep: Report, modes: &[(bool, bool)], direct: &[&str]) -> Report {
    let mut agreed = 0;
    let mut schedules = 0;
    let mut steps = 0;
    for (ack, closure) in modes {
        let c = crate::props_e2::quick_conformance(*ack, *closure);
        agreed += c.agreed;
        schedules += c.schedules;
        steps += c.steps;
        for d in c.divergences {
            rep.machinery_errors.push(format!("MODEL-DIVERGENCE: the real daemon loop and the E1 loop model disagree: {}", d));
        }
        rep.violations.extend(c.violations.into_iter().filter(|v| direct.contains(&v.clause.as_str())));
    }
    if let Some(o) = rep.coverage.as_object_mut() {
        o.insert("traces_validated_against_impl".into(), json!(agreed));
        o.insert("conformance".into(), json!({"real_daemon_schedules": schedules, "agreed_with_loop_model": agreed, "real_loop_steps_replayed": steps, "deviation_bound": 1}));
    }
    rep
}

/// the property's own real-daemon batch (props_e2::extra_conformance) with its direct clauses
fn with_daemon_batch(mut rep: Report, args: &Args, direct: &[&str]) -> Report {
    let scns = crate::props_e2::extra_conformance(&args.id, args.tier);
    if scns.is_empty() {
        return rep;
    }
    let c = crate::props_e2::run_conformance(scns);
    for d in c.divergences {
        rep.machinery_errors.push(format!("MODEL-DIVERGENCE: the real daemon loop and the E1 loop model disagree: {}", d));
    }
    if c.incomplete > 0 {
        rep.machinery_errors.push(format!("{} real-daemon schedules were cut by the step horizon", c.incomplete));
    }
    rep.violations.extend(c.violations.into_iter().filter(|v| direct.contains(&v.clause.as_str())));
    if let Some(o) = rep.coverage.as_object_mut() {
        let prev = o.get("traces_validated_against_impl").and_then(|x| x.as_u64()).unwrap_or(0);
        o.insert("traces_validated_against_impl".into(), json!(prev + c.agreed));
        o.insert("daemon_batch".into(), json!({"per_scenario": c.per, "real_loop_steps_replayed": c.steps, "direct_clauses": direct}));
    }
    rep
}

const GEN: [&str; 5] = ["panic", "codec", "deadlock", "livelock", "spin"];

fn mode_grid(tier: Tier) -> Vec<(bool, bool)> {
    // (acknowledged, closure)
    tier.pick(vec![(true, false), (false, false), (false, true)], vec![(true, false), (true, true), (false, false), (false, true)])
}

pub fn c01(args: &Args) -> Report {
    let mk: &MkMon = &|_s: &Scenario| Box::new(mons::C01::default());
    if args.replay.is_some() {
        return replay_e1(args, mk);
    }
    let mut scns = vec![];
    let f = args.tier.pick(1, 2);
    for (ack, closure) in mode_grid(args.tier) {
        for null in [false, true] {
            // contents: ramp, zeros, checksum-neutral block in the first / middle / last segment
            let contents: Vec<(u64, Content)> = args.tier.pick(
                vec![(17, Content::Ramp), (32, Content::NeutralAt(0)), (32, Content::NeutralAt(1)), (0, Content::Ramp), (32, Content::Zeros)],
                vec![(17, Content::Ramp), (1, Content::Ramp), (0, Content::Ramp), (32, Content::Zeros), (48, Content::NeutralAt(0)), (48, Content::NeutralAt(1)), (48, Content::NeutralAt(2)), (47, Content::Ramp), (40, Content::NeutralAt(2))],
            );
            for (size, content) in contents {
                if null && matches!(content, Content::NeutralAt(_) | Content::Zeros) {
                    continue; // with the null checksum every content is "neutral"
                }
                let naks: Vec<(bool, u64)> = if ack { naks(args.tier) } else { vec![(false, 0)] };
                for (imm, delay) in naks {
                    let mut s = Scenario::base(&format!("c01 {}{} {} size={} {:?} nak={}{} F={}", if ack { "ack" } else { "unack" }, if closure { "+closure" } else { "" }, if null { "null" } else { "modular" }, size, content, if imm { "imm" } else { "def" }, delay, f));
                    s.ack = ack;
                    s.closure = closure;
                    s.null_checksum = null;
                    s.file_size = Some(size);
                    s.content = content.clone();
                    s.nak_immediate = imm;
                    s.nak_delay_s = delay;
                    s.faults = f;
                    s.k_drop = true;
                    s.k_dup = true;
                    s.k_overtake = true;
                    s.k_delay = args.tier == Tier::Thorough;
                    scns.push(s);
                }
            }
        }
        // a stale, longer file already sits under the destination name
        let mut st = Scenario::base(&format!("c01 {}{} size=17 stale destination F=1", if ack { "ack" } else { "unack" }, if closure { "+closure" } else { "" }));
        st.ack = ack;
        st.closure = closure;
        st.file_size = Some(17);
        st.pre_files = vec![(DST_NAME.into(), "STALE-CONTENT-LONGER-THAN-THE-SOURCE-FILE".into())];
        st.faults = 1;
        st.k_drop = true;
        st.k_dup = true;
        scns.push(st);
        // three segments, reordered / duplicated / re-requested (cursor handling of the staging file)
        let mut ro = Scenario::base(&format!("c01 {}{} size=40 F={} duo", if ack { "ack" } else { "unack" }, if closure { "+closure" } else { "" }, args.tier.pick(1, 2)));
        ro.ack = ack;
        ro.closure = closure;
        ro.file_size = Some(40);
        ro.faults = args.tier.pick(1, 2);
        ro.k_drop = true;
        ro.k_dup = true;
        ro.k_overtake = true;
        scns.push(ro);
        // CRC on: payload corruption is a fault kind
        let mut s = Scenario::base(&format!("c01 {}{} crc size=17 F=1 corrupt", if ack { "ack" } else { "unack" }, if closure { "+closure" } else { "" }));
        s.ack = ack;
        s.closure = closure;
        s.file_size = Some(17);
        s.crc = true;
        s.faults = 1;
        s.k_corrupt = true;
        s.k_drop = true;
        scns.push(s.clone());
        // the same with the Null file checksum: the PDU CRC is then the only integrity check
        s.name = format!("{} null-checksum", s.name);
        s.null_checksum = true;
        scns.push(s);
    }
    let res = run_all(scns, mk, args.tier);
    with_conformance(fold(res, &["panic", "codec"], 0, json!({})), &[(true, false), (false, false), (false, true)])
}

fn named(prefix: &str, ack: bool, closure: bool) -> String {
    format!("{} {}{}", prefix, if ack { "ack" } else { "unack" }, if closure { "+closure" } else { "" })
}

pub fn c03(args: &Args) -> Report {
    let mk: &MkMon = &|_s: &Scenario| Box::new(mons::C03::default());
    if args.replay.is_some() {
        return replay_e1(args, mk);
    }
    let mut scns = vec![];
    for (ack, closure) in [(true, false), (false, false), (false, true)] {
        let naks: Vec<(bool, u64)> = if ack { naks(args.tier) } else { vec![(false, 0)] };
        for (imm, delay) in naks {
            for mc in args.tier.pick(vec![2u32], vec![2u32, 3]) {
                for abandon in [false, true] {
                    let mut s = Scenario::base(&format!("{} nak={}{} max_count={} handlers={} blackout", named("c03", ack, closure), if imm { "imm" } else { "def" }, delay, mc, if abandon { "abandon" } else { "default" }));
                    s.ack = ack;
                    s.closure = closure;
                    s.nak_immediate = imm;
                    s.nak_delay_s = delay;
                    s.max_count = mc;
                    s.file_size = Some(args.tier.pick(17, 33));
                    s.blackout = vec![LinkId::SR, LinkId::RS];
                    if abandon {
                        s.handlers = vec![(1, 3), (7, 3), (8, 3), (5, 3), (6, 3)];
                    }
                    if abandon && args.tier == Tier::Quick && (imm || delay > 0) {
                        continue;
                    }
                    scns.push(s.clone());
                    if !abandon {
                        // independently: the bounded fault pool of C02
                        let mut f = s.clone();
                        f.name = format!("{} nak={}{} max_count={} F={}", named("c03", ack, closure), if imm { "imm" } else { "def" }, delay, mc, args.tier.pick(1, 2));
                        f.blackout = vec![];
                        all_kinds(&mut f, args.tier.pick(1, 2));
                        scns.push(f);
                    }
                }
            }
        }
    }
    // blackout combined with the bounded fault pool: a late or duplicated answer followed by silence
    for (imm, nm) in [(false, "def0"), (true, "imm0")] {
        let mut p = Scenario::base(&format!("c03 ack nak={} max_count=2 blackout + F=1 dut", nm));
        p.nak_immediate = imm;
        p.max_count = 2;
        p.file_size = Some(17);
        p.faults = 1;
        p.k_drop = true;
        p.k_dup = true;
        p.k_delay = true;
        p.blackout = vec![LinkId::SR, LinkId::RS];
        scns.push(p);
    }
    // a user cancel (at either entity) followed by duplicated / lost answers and silence
    for by in [Side::S, Side::R] {
        let mut p = Scenario::base(&format!("c03 ack max_count=2 cancel@{:?} + blackout + F=1 du", by));
        p.max_count = 2;
        p.file_size = Some(17);
        p.user = vec![(by, UserOp::Cancel, 1)];
        p.faults = 1;
        p.k_drop = true;
        p.k_dup = true;
        p.blackout = vec![LinkId::SR, LinkId::RS];
        scns.push(p);
    }
    // immediate procedure, three segments: a gap requested and filled, the NAK timer expiring with
    // nothing left to ask for, then a cancel at the receiver with file data still on its way
    {
        let mut p = Scenario::base("c03 ack nak=imm0 size=32 max_count=1 cancel@R + blackout R->S + F=2 ot");
        p.nak_immediate = true;
        p.max_count = 1;
        p.blackout = vec![LinkId::RS];
        p.file_size = Some(32);
        p.user = vec![(Side::R, UserOp::Cancel, 1)];
        p.faults = 2;
        p.k_overtake = true;
        p.k_delay = true;
        scns.push(p);
    }
    if args.tier == Tier::Thorough {
        // the same crossing for every NAK procedure and either cancelling entity
        for (imm, delay) in naks(args.tier) {
            for by in [Side::S, Side::R] {
                let nm = format!("{}{}", if imm { "imm" } else { "def" }, delay);
                if imm && delay == 0 && by == Side::R {
                    continue; // the scenario above
                }
                let mut p = Scenario::base(&format!("c03 ack nak={} size=32 max_count=1 cancel@{:?} + blackout R->S + F=2 ot", nm, by));
                p.nak_immediate = imm;
                p.nak_delay_s = delay;
                p.max_count = 1;
                p.file_size = Some(32);
                p.user = vec![(by, UserOp::Cancel, 1)];
                p.faults = 2;
                p.k_overtake = true;
                p.k_delay = true;
                p.blackout = vec![LinkId::RS];
                scns.push(p);
            }
        }
    }
    // prompts in unacknowledged mode with closure (a prompt there is useless, but a user may issue it)
    for op in [UserOp::PromptNak, UserOp::PromptKeepAlive] {
        let mut p = Scenario::base(&format!("c03 unack+closure max_count=2 {:?} + blackout", op));
        p.ack = false;
        p.closure = true;
        p.max_count = 2;
        p.file_size = Some(17);
        p.user = vec![(Side::S, op, 1)];
        p.blackout = vec![LinkId::RS];
        scns.push(p);
    }
    // a NAK prompt at every state (also after the receiver has finished or was cancelled)
    for (imm, nm) in [(false, "def0"), (true, "imm0")] {
        let mut p = Scenario::base(&format!("c03 ack nak={} max_count=2 prompt + F=1 du + blackout", nm));
        p.nak_immediate = imm;
        p.max_count = 2;
        p.file_size = Some(17);
        p.user = vec![(Side::S, UserOp::PromptNak, 1)];
        p.faults = 1;
        p.k_drop = true;
        p.k_dup = true;
        p.blackout = vec![LinkId::RS];
        scns.push(p);
    }
    // a segment size below the size of one NAK segment request: the receiver must still get
    // somewhere (or give up in bounded time) when something is missing
    for seg in args.tier.pick(vec![8u16], vec![8u16, 5]) {
        let mut p = Scenario::base(&format!("c03 ack seg={} size=9 max_count=2 F=1 d + blackout", seg));
        p.seg = seg;
        p.max_count = 2;
        p.file_size = Some(9);
        p.faults = 1;
        p.k_drop = true;
        p.blackout = vec![LinkId::RS, LinkId::SR];
        scns.push(p);
    }
    let res = run_all(scns, mk, args.tier);
    let mut rep = fold(res, &GEN, 0, json!({}));
    rep.assumptions.push("fault handlers at their default (cancel) or Abandon; Ignore/Suspend overrides and user suspension are excluded by the property".into());
    with_conformance2(rep, &[(true, false), (false, false), (false, true)], &["transaction-never-ends"])
}

pub fn c04(args: &Args) -> Report {
    let mk: &MkMon = &|_s: &Scenario| Box::new(mons::C04::default());
    if args.replay.is_some() {
        return replay_e1(args, mk);
    }
    let mut scns = vec![];
    let (f, st) = args.tier.pick((1, 1), (2, 2));
    for null in [false, true] {
        for (ack, closure) in [(true, false), (false, true)] {
            for file in [true, false] {
                let mut s = Scenario::base(&format!("{} {} {} F={}d stragglers={}", named("c04", ack, closure), if null { "null" } else { "modular" }, if file { "file size=17" } else { "requests-only" }, f, st));
                s.ack = ack;
                s.closure = closure;
                s.null_checksum = null;
                s.file_size = if file { Some(17) } else { None };
                // a non-idempotent request: append log2 to log1
                s.requests = vec![(3, "log1".into(), "log2".into())];
                s.pre_files = vec![("log1".into(), "A".into()), ("log2".into(), "B".into())];
                s.faults = f;
                s.k_drop = true;
                s.stragglers = st;
                s.stragglers_after_success = true;
                if !file && null {
                    continue;
                }
                scns.push(s);
            }
        }
    }
    // a delivery that fails its integrity check (EOF with a wrong checksum / size from a faulty
    // sender): the sending entity must not report success for it
    let mut b = Scenario::base("c04 ack modular file size=17 injected bad EOF");
    b.file_size = Some(17);
    b.inject = vec![InjectSpec::BadEof { checksum_xor: 1, size_delta: 0 }, InjectSpec::BadEof { checksum_xor: 0, size_delta: -1 }];
    b.inject_budget = 1;
    b.inject_before_success = true; // afterwards only PDUs that were really sent may arrive (C04's quantifier)
    scns.push(b);
    // duplicates instead of stragglers (the link itself re-delivers)
    let mut s = Scenario::base("c04 ack modular file size=17 F=2 du");
    s.file_size = Some(17);
    s.faults = args.tier.pick(1, 2);
    s.k_dup = true;
    s.k_drop = true;
    s.requests = vec![(3, "log1".into(), "log2".into())];
    s.pre_files = vec![("log1".into(), "A".into()), ("log2".into(), "B".into())];
    scns.push(s);
    // user requests at the receiver at any moment — a status report whose requester has gone
    // away, suspend and resume — while the closing handshake is being lost and repeated
    for (nm, ops) in [("report@R", vec![(Side::R, UserOp::Report, 1)]), ("suspend/resume@R", vec![(Side::R, UserOp::Suspend, 1), (Side::R, UserOp::Resume, 1)])] {
        for null in [false, true] {
            let mut s = Scenario::base(&format!("c04 ack {} file size=17 {} F=2 d", if null { "null" } else { "modular" }, nm));
            s.file_size = Some(17);
            s.null_checksum = null;
            s.user = ops.clone();
            s.faults = 2;
            s.k_drop = true;
            s.requests = vec![(3, "log1".into(), "log2".into())];
            s.pre_files = vec![("log1".into(), "A".into()), ("log2".into(), "B".into())];
            scns.push(s);
        }
    }
    let res = run_all(scns, mk, args.tier);
    with_daemon_batch(with_conformance2(fold(res, &["panic", "codec"], 0, json!({})), &[(true, false), (false, true)], &["report-after-success"]), args, &["report-after-success"])
}

pub fn c18(args: &Args) -> Report {
    let mk: &MkMon = &|_s: &Scenario| Box::new(mons::C18::default());
    if args.replay.is_some() {
        return replay_e1(args, mk);
    }
    let mut scns = vec![];
    let f = args.tier.pick(1, 2);
    for closure in [false, true] {
        for (size, content) in [(0u64, Content::Ramp), (1, Content::Ramp), (16, Content::Zeros), (33, Content::NeutralAt(1)), (33, Content::Zeros)] {
            let mut s = Scenario::base(&format!("{} size={} {:?} F={} duo", named("c18", false, closure), size, content, f));
            s.ack = false;
            s.closure = closure;
            s.file_size = Some(size);
            s.content = content.clone();
            s.faults = f;
            s.k_drop = true;
            s.k_dup = true;
            s.k_overtake = true;
            scns.push(s.clone());
            if size == 33 || size == 0 {
                let mut b = s.clone();
                b.name = format!("{} size={} {:?} blackout", named("c18", false, closure), size, content);
                b.faults = 0;
                b.blackout = vec![LinkId::SR, LinkId::RS];
                scns.push(b);
            }
        }
    }
    // closure: the receiver's user cancels while the sender is still in its data phase, or the
    // Finished PDU crosses the sender's own check limit
    for by in [Side::R, Side::S] {
        let mut s = Scenario::base(&format!("c18 unack+closure size=40 cancel@{:?} + F=1 d", by));
        s.ack = false;
        s.closure = true;
        s.file_size = Some(40);
        s.max_count = 1;
        s.user = vec![(by, UserOp::Cancel, 1)];
        s.faults = 1;
        s.k_drop = true;
        scns.push(s);
    }
    // no closure: a cancel (user at either entity, or the inactivity limit after a blackout)
    // with the Metadata PDU or anything else lost — still nothing may travel towards the sender
    for by in [Side::R, Side::S] {
        let mut s = Scenario::base(&format!("c18 unack size=33 cancel@{:?} + blackout + F=1 d", by));
        s.ack = false;
        s.closure = false;
        s.file_size = Some(33);
        s.max_count = 1;
        s.user = vec![(by, UserOp::Cancel, 1)];
        s.faults = 1;
        s.k_drop = true;
        s.blackout = vec![LinkId::SR];
        scns.push(s);
    }
    let res = run_all(scns, mk, args.tier);
    with_conformance(fold(res, &GEN, 0, json!({})), &[(false, false), (false, true)])
}

pub fn c20(args: &Args) -> Report {
    let mk: &MkMon = &|_s: &Scenario| Box::new(mons::C20::default());
    if args.replay.is_some() {
        return replay_e1(args, mk);
    }
    let mut scns = vec![];
    for &size in args.tier.pick(&[0u64, 17, 47][..], &[0u64, 1, 17, 33, 47][..]) {
        // prompts (keep-alive) and suspend/resume at every state, over a lossy link
        let mut s = Scenario::base(&format!("c20 ack size={} F=1 duo + prompt/suspend/resume", size));
        s.file_size = Some(size);
        s.faults = 1;
        s.k_drop = true;
        s.k_dup = true;
        s.k_overtake = true;
        s.user = vec![(Side::S, UserOp::PromptKeepAlive, 1), (Side::S, UserOp::Suspend, 1), (Side::S, UserOp::Resume, 1)];
        scns.push(s.clone());
        let mut r = s.clone();
        r.name = format!("c20 ack size={} F=1 d + prompt + receiver suspend/resume", size);
        r.k_dup = false;
        r.k_overtake = false;
        r.user = vec![(Side::S, UserOp::PromptKeepAlive, 1), (Side::R, UserOp::Suspend, 1), (Side::R, UserOp::Resume, 1)];
        scns.push(r);
        // fault-raising: blackout so that Fault / Abandon indications occur
        for abandon in [false, true] {
            let mut b = Scenario::base(&format!("c20 ack size={} blackout handlers={}", size, if abandon { "abandon" } else { "default" }));
            b.file_size = Some(size);
            b.max_count = 2;
            b.blackout = vec![LinkId::SR, LinkId::RS];
            if abandon {
                b.handlers = vec![(1, 3), (7, 3), (8, 3)];
            }
            scns.push(b);
        }
    }
    // a cancel at the sender in the middle of its first pass, then reports from the cancelled
    // phase: Resumed after a suspension, Abandon at the limit of the unanswered EOF(cancel)
    let mut cs = Scenario::base("c20 ack size=47 cancel@S + suspend/resume@S + blackout");
    cs.file_size = Some(47);
    cs.max_count = 1;
    cs.user = vec![(Side::S, UserOp::Cancel, 1), (Side::S, UserOp::Suspend, 1), (Side::S, UserOp::Resume, 1)];
    cs.blackout = vec![LinkId::RS];
    scns.push(cs);
    let mut u = Scenario::base("c20 unack+closure size=33 F=1 d blackout");
    u.ack = false;
    u.closure = true;
    u.file_size = Some(33);
    u.faults = 1;
    u.k_drop = true;
    u.max_count = 2;
    u.blackout = vec![LinkId::RS];
    scns.push(u);
    let res = run_all(scns, mk, args.tier);
    with_conformance(fold(res, &["panic", "codec"], 0, json!({})), &[(true, false), (false, true)])
}

/// C09 = the segment list against its reference model (E3) + the receiver's account at protocol
/// level (E1), where a peer may also send file data beyond the size its EOF announces
pub fn c09(args: &Args) -> Report {
    let mk: &MkMon = &|_s: &Scenario| Box::new(mons::C09::default());
    if let Some(p) = &args.replay {
        let v: serde_json::Value = serde_json::from_str(&std::fs::read_to_string(p).expect("replay file")).unwrap();
        if v["case"]["engine"] == "seq-segments" {
            return crate::seq_segments::run(args);
        }
        return replay_e1(args, mk);
    }
    let mut scns = vec![];
    for null in [true, false] {
        for (imm, nm) in [(false, "def0"), (true, "imm0")] {
            if args.tier == Tier::Quick && imm && !null {
                continue;
            }
            // 20 bytes in segments of 16: [0,16) [16,20). Injected: inside, overlapping both
            // segments, straddling the end of the file, wholly beyond it.
            let mut s = Scenario::base(&format!("c09 ack {} size=20 nak={} F=1 do + injected file data x{}", if null { "null" } else { "modular" }, nm, args.tier.pick(1, 2)));
            s.file_size = Some(20);
            s.null_checksum = null;
            s.nak_immediate = imm;
            s.faults = 1;
            s.k_drop = true;
            s.k_overtake = true;
            s.inject = vec![
                InjectSpec::Data { offset: 4, len: 8 },
                InjectSpec::Data { offset: 12, len: 6 },
                InjectSpec::Data { offset: 18, len: 6 },
                InjectSpec::Data { offset: 20, len: 4 },
                InjectSpec::Data { offset: 28, len: 4 },
            ];
            s.inject_budget = args.tier.pick(1, 2);
            scns.push(s);
        }
    }
    let mut u = Scenario::base("c09 unack null size=20 F=1 do + injected file data x1");
    u.ack = false;
    u.file_size = Some(20);
    u.null_checksum = true;
    u.faults = 1;
    u.k_drop = true;
    u.k_overtake = true;
    u.inject = vec![InjectSpec::Data { offset: 12, len: 6 }, InjectSpec::Data { offset: 20, len: 4 }];
    u.inject_budget = 1;
    scns.push(u);
    let res = run_all(scns, mk, args.tier);
    let e1 = fold(res, &["panic", "codec"], 0, json!({}));
    let mut rep = crate::seq_segments::run(args);
    rep.violations.extend(e1.violations);
    rep.machinery_errors.extend(e1.machinery_errors);
    rep.assumptions.extend(e1.assumptions);
    if let Some(o) = rep.coverage.as_object_mut() {
        o.insert("protocol_level".into(), e1.coverage);
    }
    rep
}

pub fn c10(args: &Args) -> Report {
    let mk: &MkMon = &|_s: &Scenario| Box::new(mons::C10::default());
    if args.replay.is_some() {
        return replay_e1(args, mk);
    }
    let mut scns = vec![];
    for (ack, closure) in [(true, false), (false, false), (false, true)] {
        for by in [Side::S, Side::R] {
            let size = args.tier.pick(33, 47);
            let mut s = Scenario::base(&format!("{} size={} cancel@{:?}", named("c10", ack, closure), size, by));
            s.ack = ack;
            s.closure = closure;
            s.file_size = Some(size);
            s.max_count = 2;
            s.user = vec![(by, UserOp::Cancel, 1)];
            scns.push(s.clone());
            // single losses of the handshake PDUs
            let mut l = s.clone();
            l.name = format!("{} size=17 cancel@{:?} F=1 d", named("c10", ack, closure), by);
            l.file_size = Some(17);
            l.max_count = 3;
            l.faults = 1;
            l.k_drop = true;
            scns.push(l);
            // peer blackout
            let mut b = s.clone();
            b.name = format!("{} size=17 cancel@{:?} blackout", named("c10", ack, closure), by);
            b.file_size = Some(17);
            b.blackout = vec![LinkId::SR, LinkId::RS];
            scns.push(b);
        }
    }
    // two losses in acknowledged mode: something of the file is still missing at the receiver
    // when the cancel is issued, and the EOF (cancel) itself is lost once
    for by in [Side::S, Side::R] {
        let mut l = Scenario::base(&format!("c10 ack size=17 cancel@{:?} F=2 d", by));
        l.file_size = Some(17);
        l.max_count = 3;
        l.user = vec![(by, UserOp::Cancel, 1)];
        l.faults = 2;
        l.k_drop = true;
        scns.push(l);
    }
    let res = run_all(scns, mk, args.tier);
    with_daemon_batch(with_conformance(fold(res, &GEN, 0, json!({})), &[(true, false), (false, false), (false, true)]), args, &["cancel-not-propagated", "transaction-never-ends"])
}

pub fn c19(args: &Args) -> Report {
    let mk: &MkMon = &|_s: &Scenario| Box::new(mons::C19::default());
    if args.replay.is_some() {
        return replay_e1(args, mk);
    }
    let mut scns = vec![];
    for ack in [true, false] {
        for by in [Side::S, Side::R] {
            let mut s = Scenario::base(&format!("{} size=33 suspend/resume@{:?}", named("c19", ack, false), by));
            s.ack = ack;
            s.file_size = Some(33);
            s.user = vec![(by, UserOp::Suspend, 1), (by, UserOp::Resume, 1)];
            s.idle = 1;
            scns.push(s.clone());
            if args.tier == Tier::Thorough || ack {
                let mut l = s.clone();
                l.name = format!("{} size=17 suspend/resume@{:?} F=1 d", named("c19", ack, false), by);
                l.file_size = Some(17);
                l.faults = 1;
                l.k_drop = true;
                scns.push(l);
            }
        }
    }
    // a Prompt requested while the sender is suspended (the suspension may outlast every limit)
    for op in [UserOp::PromptKeepAlive, UserOp::PromptNak] {
        let mut s = Scenario::base(&format!("c19 ack size=17 max_count=2 suspend/{:?}/resume@S + blackout", op));
        s.file_size = Some(17);
        s.max_count = 2;
        s.user = vec![(Side::S, UserOp::Suspend, 1), (Side::S, op, 1), (Side::S, UserOp::Resume, 1)];
        s.blackout = vec![LinkId::RS];
        s.idle = 1;
        scns.push(s);
    }
    // the receiver suspended while it waits for the answer to a NAK, and that answer lost
    let mut s = Scenario::base("c19 ack size=17 suspend/resume@R F=2 d");
    s.file_size = Some(17);
    s.user = vec![(Side::R, UserOp::Suspend, 1), (Side::R, UserOp::Resume, 1)];
    s.faults = 2;
    s.k_drop = true;
    scns.push(s);
    let res = run_all(scns, mk, args.tier);
    with_daemon_batch(with_conformance(fold(res, &["panic", "codec", "livelock", "spin"], 0, json!({})), &[(true, false), (false, false)]), args, &["transmitted-while-suspended", "transfer-not-completed-after-resume", "transaction-never-ends"])
}

fn nak_alphabet(size: u64, seg: u64, tier: Tier) -> Vec<InjectSpec> {
    let offs: Vec<u64> = {
        let mut v = vec![0, 1, seg - 1, seg, seg + 1, size.saturating_sub(1), size, size + 1, size + seg];
        v.sort();
        v.dedup();
        v
    };
    let mut out = vec![InjectSpec::Nak(vec![(0, 0)])];
    // single ranges: empty a..a, longer than a segment, beyond the end
    for &a in &offs {
        for &b in &offs {
            if a < b || (a == b && a != 0 && (a == seg || a == size)) {
                out.push(InjectSpec::Nak(vec![(a, b)]));
            }
        }
    }
    // pairs: overlapping, unsorted, duplicated
    out.push(InjectSpec::Nak(vec![(0, seg), (seg - 1, seg + 1)]));
    out.push(InjectSpec::Nak(vec![(seg, size.max(seg + 1)), (0, 1)]));
    out.push(InjectSpec::Nak(vec![(1, seg), (1, seg)]));
    out.push(InjectSpec::Nak(vec![(0, 0), (0, 1)]));
    if tier == Tier::Quick {
        // keep the shapes, thin the single ranges
        let keep: Vec<InjectSpec> = out.iter().enumerate().filter(|(i, _)| i % 3 == 0 || *i + 4 >= out.len()).map(|(_, s)| s.clone()).collect();
        return keep;
    }
    out
}

pub fn c07(args: &Args) -> Report {
    let mk: &MkMon = &|_s: &Scenario| Box::new(mons::C07::default());
    if args.replay.is_some() {
        return replay_e1(args, mk);
    }
    let mut scns = vec![];
    // sender-centred: the explorer plays a (non-)conforming receiver's NAKs
    for (seg, size) in args.tier.pick(vec![(16u16, 33u64), (16, 16)], vec![(16, 33), (16, 16), (16, 0), (24, 47), (24, 25)]) {
        let mut s = Scenario::base(&format!("c07 ack seg={} size={} injected NAKs x{}", seg, size, args.tier.pick(1, 2)));
        s.seg = seg;
        s.file_size = Some(size);
        s.inject = nak_alphabet(size, seg as u64, args.tier);
        s.inject_budget = args.tier.pick(1, 2);
        // the real receiver is cut off so that only the injected NAKs reach the sender
        s.blackout = vec![];
        s.max_count = 2;
        scns.push(s);
    }
    // ordinary two-party scenarios: conforming NAKs of the real receiver
    for size in [0u64, 17, 33] {
        let mut s = Scenario::base(&format!("c07 ack size={} F={} duo", size, args.tier.pick(1, 2)));
        s.file_size = Some(size);
        s.faults = args.tier.pick(1, 2);
        s.k_drop = true;
        s.k_dup = true;
        s.k_overtake = true;
        scns.push(s);
    }
    // user suspend / resume at the sender at every state (the first pass must still tile the file once)
    let mut sr = Scenario::base("c07 ack size=40 suspend/resume@S + F=1 d");
    sr.file_size = Some(40);
    sr.user = vec![(Side::S, UserOp::Suspend, 1), (Side::S, UserOp::Resume, 1)];
    sr.faults = 1;
    sr.k_drop = true;
    scns.push(sr);
    let mut u = Scenario::base("c07 unack size=33 F=1 d");
    u.ack = false;
    u.file_size = Some(33);
    u.faults = 1;
    u.k_drop = true;
    scns.push(u);
    // the source name is a symbolic link: sizes stated must be those of the data, not of the link
    let mut l = Scenario::base("c07 ack size=33 source is a symbolic link F=1 d");
    l.file_size = Some(33);
    l.src_symlink = true;
    l.faults = 1;
    l.k_drop = true;
    scns.push(l);
    let mut c = Scenario::base("c07 ack crc size=17 F=1 d");
    c.crc = true;
    c.file_size = Some(17);
    c.faults = 1;
    c.k_drop = true;
    scns.push(c);
    let res = run_all(scns, mk, args.tier);
    let rep = with_conformance2(fold(res, &["panic", "codec"], 0, json!({})), &[(true, false), (false, false)], &["metadata-size-wrong", "eof-size-wrong", "metadata-fields-wrong", "filedata-exceeds-segment-size"]);
    with_daemon_batch(rep, args, &["filedata-exceeds-segment-size", "metadata-size-wrong", "eof-size-wrong"])
}

pub fn c08(args: &Args) -> Report {
    let mk: &MkMon = &|_s: &Scenario| Box::new(mons::C08::default());
    if args.replay.is_some() {
        return replay_e1(args, mk);
    }
    let mut scns = vec![];
    for (imm, delay) in [(false, 0u64), (false, 5), (true, 0), (true, 5)] {
        for size in args.tier.pick(vec![0u64, 33], vec![0u64, 16, 33, 48]) {
            // every subset of {metadata, segments} lost: F = number of PDUs, drops only
            let n = (size + 15) / 16 + 1;
            let mut s = Scenario::base(&format!("c08 size={} nak={}{} F={} d (every loss subset)", size, if imm { "imm" } else { "def" }, delay, n));
            s.file_size = Some(size);
            s.nak_immediate = imm;
            s.nak_delay_s = delay;
            s.faults = n as u8;
            s.k_drop = true;
            s.max_count = (n + 2) as u32;
            scns.push(s);
        }
        // EOF first, data after EOF, duplicated EOF, one prompt
        let mut s = Scenario::base(&format!("c08 size=33 nak={}{} F={} duo + prompt", if imm { "imm" } else { "def" }, delay, args.tier.pick(1, 2)));
        s.file_size = Some(33);
        s.nak_immediate = imm;
        s.nak_delay_s = delay;
        s.faults = args.tier.pick(1, 2);
        s.k_drop = true;
        s.k_dup = true;
        s.k_overtake = true;
        s.k_delay = true;
        s.user = vec![(Side::S, UserOp::PromptNak, 1)];
        scns.push(s);
    }
    // losses combined with a pause in the data flow longer than a timer (but below its limit)
    // before the EOF: the deferred procedure still must not ask for anything before EOF
    for (imm, nm) in [(false, "def0"), (true, "imm0")] {
        let mut s = Scenario::base(&format!("c08 size=17 nak={} F=2 dt", nm));
        s.file_size = Some(17);
        s.nak_immediate = imm;
        s.faults = 2;
        s.k_drop = true;
        s.k_delay = true;
        scns.push(s);
    }
    // user suspend / resume at the receiver at every state (deferred: no NAK before EOF all the same)
    for (imm, nm) in [(false, "def0"), (true, "imm0")] {
        let mut s = Scenario::base(&format!("c08 size=33 nak={} suspend/resume@R + F=1 d", nm));
        s.file_size = Some(33);
        s.nak_immediate = imm;
        s.user = vec![(Side::R, UserOp::Suspend, 1), (Side::R, UserOp::Resume, 1)];
        s.faults = 1;
        s.k_drop = true;
        scns.push(s);
    }
    // PDUs spaced in time by less than the NAK delay: delayed checks with different due times
    {
        let mut s = Scenario::base("c08 size=64 nak=imm5 waits=2x2s F=2 d");
        s.file_size = Some(64);
        s.nak_immediate = true;
        s.nak_delay_s = 5;
        s.waits = 2;
        s.wait_ms = 2000;
        s.faults = 2;
        s.k_drop = true;
        s.max_count = 4;
        scns.push(s);
    }
    // several delayed gap checks and the EOF's whole-file check falling due together: the request
    // queue is then filled from overlapping windows, out of order (two requests per NAK PDU)
    {
        let mut s = Scenario::base("c08 seg=24 size=96 nak=imm5 F=3 d");
        s.seg = 24;
        s.file_size = Some(96);
        s.nak_immediate = true;
        s.nak_delay_s = 5;
        s.faults = 3;
        s.k_drop = true;
        s.max_count = 5;
        scns.push(s);
    }
    // a segment size that is not a multiple of the request size: the capacity computation of a
    // NAK PDU (how many requests fit) is exercised with several separate gaps
    for seg in args.tier.pick(vec![20u16], vec![20u16, 28]) {
        let mut s = Scenario::base(&format!("c08 seg={} size={} nak=def0 F=4 d (every loss subset)", seg, 3 * seg as u64));
        s.seg = seg;
        s.file_size = Some(3 * seg as u64);
        s.faults = 4;
        s.k_drop = true;
        s.max_count = 6;
        scns.push(s);
    }
    let res = run_all(scns, mk, args.tier);
    with_conformance(fold(res, &["panic", "codec"], 0, json!({})), &[(true, false)])
}

pub fn c17_e1(tier: Tier) -> Vec<ExploreResult> {
    let mk: &MkMon = &|_s: &Scenario| Box::new(mons::C17::default());
    let mut scns = vec![];
    // condition codes: 1 positive ack limit, 7 nak limit, 8 inactivity, 5 checksum, 6 file size
    for mc in tier.pick(vec![1u32, 2], vec![1u32, 2, 3]) {
        for action in [None, Some(0u8), Some(2), Some(1), Some(3)] {
            if tier == Tier::Quick && mc == 1 && matches!(action, Some(0)) {
                continue;
            }
            for (ack, closure) in [(true, false), (false, true)] {
                let an = match action {
                    None => "unset",
                    Some(0) => "cancel",
                    Some(1) => "suspend",
                    Some(2) => "ignore",
                    _ => "abandon",
                };
                let mut s = Scenario::base(&format!("{} max_count={} handlers={} blackout + F=1 t", named("c17", ack, closure), mc, an));
                s.ack = ack;
                s.closure = closure;
                s.max_count = mc;
                s.file_size = Some(17);
                s.blackout = vec![LinkId::SR, LinkId::RS];
                s.faults = 1;
                s.k_delay = true;
                if let Some(a) = action {
                    s.handlers = vec![(1, a), (7, a), (8, a), (10, a)];
                    if a == 2 {
                        // ignoring a limit fault repeats it forever: cycles are the expected shape
                        s.allow_cycles = true;
                    }
                }
                scns.push(s.clone());
                if ack && mc == 2 {
                    // the answer arrives late / just before an expiry: drops make the timers run
                    let mut l = s.clone();
                    l.name = format!("{} max_count={} handlers={} F=2 dt", named("c17", ack, closure), mc, an);
                    l.blackout = vec![];
                    l.faults = 2;
                    l.k_drop = true;
                    l.k_delay = true;
                    scns.push(l);
                }
            }
            // integrity faults by an injected bad EOF
            let an = action.map_or("unset".to_string(), |a| ["cancel", "suspend", "ignore", "abandon"][a as usize].to_string());
            if mc == 2 {
                let mut b = Scenario::base(&format!("c17 ack max_count={} handlers={} injected bad EOF", mc, an));
                b.max_count = mc;
                b.file_size = Some(17);
                b.inject = vec![InjectSpec::BadEof { checksum_xor: 1, size_delta: 0 }, InjectSpec::BadEof { checksum_xor: 0, size_delta: -1 }];
                b.inject_budget = 1;
                if let Some(a) = action {
                    b.handlers = vec![(5, a), (6, a)];
                    if a == 2 {
                        b.allow_cycles = true;
                    }
                }
                scns.push(b);
            }
        }
    }
    // timeout grid: an inactivity timeout shorter than the NAK and ack timeouts, so that the
    // sender's inactivity timer expires between two answers of a slow receiver
    for (ti, ta, tn) in tier.pick(vec![(50i64, 100i64, 70i64)], vec![(50, 100, 70), (80, 100, 30), (250, 100, 70)]) {
        let mut g = Scenario::base(&format!("c17 ack timeouts=({},{},{}) max_count=2 size=33 F=3 d", ti, ta, tn));
        g.t_inact = ti;
        g.t_ack = ta;
        g.t_nak = tn;
        g.max_count = 2;
        g.file_size = Some(33);
        g.faults = 3;
        g.k_drop = true;
        scns.push(g);
    }
    // a NAK answered only in part, round after round: each round brings new data, so the NAK
    // count starts again each time and the limit (1 or 2) is never reached
    for mc in [1u32, 2] {
        let mut g = Scenario::base(&format!("c17 ack max_count={} size=33 F={} d (partial answers)", mc, 2 + mc));
        g.max_count = mc;
        g.file_size = Some(33);
        g.faults = (2 + mc) as u8;
        g.k_drop = true;
        scns.push(g);
    }
    // acknowledged mode with the closure flag set in the entity configuration (it means nothing
    // there): the sender's inactivity limit is still an inactivity limit, with its own handler
    for (a, an) in [(3u8, "abandon"), (1u8, "suspend")] {
        let mut s = Scenario::base(&format!("c17 ack+closure max_count=2 handlers={{inactivity:{}}} blackout + F=1 t", an));
        s.closure = true;
        s.max_count = 2;
        s.file_size = Some(17);
        s.blackout = vec![LinkId::SR, LinkId::RS];
        s.faults = 1;
        s.k_delay = true;
        s.handlers = vec![(8, a)];
        scns.push(s);
    }
    run_all(scns, mk, tier)
}

pub fn c17(args: &Args) -> Report {
    let mk: &MkMon = &|_s: &Scenario| Box::new(mons::C17::default());
    if args.replay.is_some() {
        return replay_e1(args, mk);
    }
    let res = c17_e1(args.tier);
    let mut rep = fold(res, &["panic", "codec"], 0, json!({}));
    // the timer component itself, against its integer reference
    crate::seq_counter::run(&mut rep, args.tier);
    with_daemon_batch(with_conformance2(rep, &[(true, false), (false, true)], &["retransmission-early"]), args, &["retransmission-early"])
}

pub fn c13_e1(tier: Tier) -> Vec<ExploreResult> {
    let mk: &MkMon = &|_s: &Scenario| Box::new(mons::C13::default());
    let mut scns = vec![];
    for (ack, closure) in [(true, false), (false, false), (false, true)] {
        for file in [true, false] {
            let mut s = Scenario::base(&format!("{} {} requests=[create,append,delete-missing,rename]", named("c13", ack, closure), if file { "file size=17" } else { "requests-only" }));
            s.ack = ack;
            s.closure = closure;
            s.file_size = if file { Some(17) } else { None };
            s.requests = vec![(0, "new1".into(), "".into()), (3, "log1".into(), "log2".into()), (1, "nope".into(), "".into()), (2, "log2".into(), "log3".into())];
            s.pre_files = vec![("log1".into(), "A".into()), ("log2".into(), "B".into())];
            // the C02 budget …
            let mut a = s.clone();
            a.name = format!("{} F={} duo", s.name, tier.pick(1, 2));
            a.faults = tier.pick(1, 2);
            a.k_drop = true;
            a.k_dup = true;
            a.k_overtake = true;
            scns.push(a);
            // … and the C04 budget (re-deliveries after completion)
            let mut b = s.clone();
            b.name = format!("{} F=1 d stragglers={}", s.name, tier.pick(1, 2));
            b.faults = 1;
            b.k_drop = true;
            b.stragglers = tier.pick(1, 2);
            b.stragglers_after_success = true;
            scns.push(b);
            // a loss the checksum cannot see (Null checksum / zero content): delivery is
            // incomplete without any fault being raised
            if file && !ack {
                for (null, content) in [(true, Content::Ramp), (false, Content::Zeros)] {
                    let mut n = s.clone();
                    n.name = format!("{} {} F=1 d", s.name, if null { "null-checksum" } else { "zero-content" });
                    n.null_checksum = null;
                    n.content = content;
                    n.file_size = Some(33);
                    n.faults = 1;
                    n.k_drop = true;
                    scns.push(n);
                }
            }
            // a delivery failing its checksum / size test (EOF from a faulty sender): no effect at all
            if file {
                let mut b = s.clone();
                b.name = format!("{} injected bad EOF", s.name);
                b.inject = vec![InjectSpec::BadEof { checksum_xor: 1, size_delta: 0 }, InjectSpec::BadEof { checksum_xor: 0, size_delta: -1 }];
                b.inject_budget = 1;
                b.inject_before_success = true;
                scns.push(b);
            }
            // cancel: no effect at all
            let mut c = s.clone();
            c.name = format!("{} cancel@R", s.name);
            c.user = vec![(Side::R, UserOp::Cancel, 1)];
            scns.push(c);
        }
    }
    run_all(scns, mk, tier)
}

pub fn c13(args: &Args) -> Report {
    let mk: &MkMon = &|_s: &Scenario| Box::new(mons::C13::default());
    if args.replay.is_some() {
        let v: serde_json::Value = serde_json::from_str(&std::fs::read_to_string(args.replay.as_ref().unwrap()).expect("replay file")).unwrap();
        if v["case"]["engine"] == "txn-mc" {
            return replay_e1(args, mk);
        }
        return crate::seq_fsreq::run(args);
    }
    // transaction level (txn-mc) …
    let mut rep = fold(c13_e1(args.tier), &["panic", "codec"], 0, json!({}));
    // … and the dispatcher against its reference model (seq-mc)
    let d = crate::seq_fsreq::run(args);
    let (ds, dt) = (d.coverage["states"].as_u64().unwrap_or(0), d.coverage["transitions"].as_u64().unwrap_or(0));
    if let Some(o) = rep.coverage.as_object_mut() {
        o.insert("dispatcher".into(), d.coverage.clone());
        let s = o["states"].as_u64().unwrap_or(0) + ds;
        let t = o["transitions"].as_u64().unwrap_or(0) + dt;
        o.insert("states".into(), json!(s));
        o.insert("transitions".into(), json!(t));
    }
    rep.violations.extend(d.violations);
    rep.machinery_errors.extend(d.machinery_errors);
    rep.assumptions.extend(d.assumptions);
    let mut rep = with_conformance2(rep, &[(true, false), (false, true)], &["metadata-fields-wrong"]);
    // every dispatcher transition was executed on the real NativeFileStore as well
    if let Some(o) = rep.coverage.as_object_mut() {
        let v = o["traces_validated_against_impl"].as_u64().unwrap_or(0) + dt;
        o.insert("traces_validated_against_impl".into(), json!(v));
    }
    rep
}

/// debugging aid: vcheck DBG <file.json> with {"scenario":…, "histories":[[…],[…]]}
pub fn dbg(args: &Args) -> Report {
    let mk: &MkMon = &|_s: &Scenario| Box::new(mons::C02::default());
    let v: serde_json::Value = serde_json::from_str(&std::fs::read_to_string(&args.extra[0]).unwrap()).unwrap();
    let scn: Scenario = serde_json::from_value(v["scenario"].clone()).unwrap();
    let scn = std::sync::Arc::new(scn);
    for h in v["histories"].as_array().unwrap() {
        let events: Vec<Ev> = serde_json::from_value(h.clone()).unwrap();
        let run = replay(&scn, &events, mk, false).unwrap();
        println!("== {:?}\n{}", events, run.key);
        let en = run.enabled.clone();
        println!("enabled: {:?}", en);
        for e in en {
            let mut h2 = events.clone();
            h2.push(e.clone());
            let r2 = replay(&scn, &h2, mk, false).unwrap();
            println!("  {:?} -> {}", e, step_brief(r2.recs.last().unwrap()));
            println!("      {}", r2.key.replace('\n', "\n      "));
        }
    }
    let mut rep = Report::new("other");
    rep.coverage = json!({"explanation": "debug"});
    rep
}
