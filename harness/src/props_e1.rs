//! Scenario lists and drivers of the E1 (txn-mc) checks.
use crate::bfs::*;
use crate::common::*;
use crate::mons;
use crate::world::*;
use rayon::prelude::*;
use serde_json::json;

fn run_all(scns: Vec<Scenario>, mk: &MkMon, tier: Tier) -> Vec<ExploreResult> {
    // scenarios run one after another; each exploration uses all cores for its frontier
    let opts = Opts::for_tier(tier);
    scns.into_iter().map(|s| explore(s, mk, &opts)).collect()
}

pub fn replay_e1(args: &Args, mk: &MkMon) -> Report {
    let v: serde_json::Value = serde_json::from_str(&std::fs::read_to_string(args.replay.as_ref().unwrap()).expect("replay file")).unwrap();
    let scn: Scenario = serde_json::from_value(v["case"]["scenario"].clone()).expect("scenario");
    let events: Vec<Ev> = serde_json::from_value(v["case"]["events"].clone()).expect("events");
    let scn = std::sync::Arc::new(scn);
    let mut rep = Report::new("model_checking");
    println!("replaying {} events of scenario {}", events.len(), scn.name);
    println!("{}", trace_text(&scn, &events, mk));
    rep.coverage = json!({"states": events.len() + 1, "transitions": events.len().max(1), "traces_validated_against_impl": 1, "samples": [format!("{:?}", events)]});
    // re-evaluate: explore nothing, just report whether the recorded clause still fails on this history
    let want = v["signature"].as_str().unwrap_or("").to_string();
    let mut hist: Vec<Ev> = vec![];
    let mut found = false;
    for e in &events {
        hist.push(e.clone());
    }
    if let Ok(run) = replay(&scn, &hist, mk, false) {
        let mut all: Vec<MonViolation> = run.last_viols;
        let mut mon = run.mon;
        let enabled = run.enabled.clone();
        if enabled.is_empty() {
            let src = run.world.src.clone();
            let mut ctx = Ctx { scn: &scn, src: &src, out: vec![], armed: vec![] };
            mon.terminal(&run.recs.last().unwrap().obs, &mut ctx);
            all.extend(ctx.out);
        }
        for v2 in all {
            let sig = format!("{}|{}|{}", v2.clause, scn.class(), v2.sig);
            println!("clause fails on this history: {}", sig);
            if sig == want {
                found = true;
                rep.violations.push(Violation { clause: v2.clause.into(), signature: sig, detail: v2.detail, replay: v["case"].clone() });
            }
        }
    }
    if !found {
        println!("the recorded clause ({}) does not fail on this tree for this history (generic clauses — deadlock, livelock, panic — are re-checked by a full run)", want);
    }
    rep
}

const SIZES_Q: [u64; 6] = [0, 1, 15, 16, 17, 32];

fn naks(tier: Tier) -> Vec<(bool, u64)> {
    tier.pick(vec![(false, 0), (true, 0), (false, 5)], vec![(false, 0), (false, 5), (true, 0), (true, 5)])
}

fn all_kinds(s: &mut Scenario, f: u8) {
    s.faults = f;
    s.k_drop = true;
    s.k_dup = true;
    s.k_overtake = true;
    s.k_delay = true;
}

fn c02_scenarios(tier: Tier) -> Vec<Scenario> {
    let mut scns = vec![];
    let sizes: Vec<u64> = tier.pick(SIZES_Q.to_vec(), vec![0, 1, 15, 16, 17, 32, 47]);
    for (imm, delay) in naks(tier) {
        for &size in sizes.iter() {
            let nm = format!("ack size={} nak={}{}", size, if imm { "imm" } else { "def" }, delay);
            let mut s = Scenario::base(&format!("c02 {} F=1 duot", nm));
            s.file_size = Some(size);
            s.nak_immediate = imm;
            s.nak_delay_s = delay;
            all_kinds(&mut s, 1);
            // quick: two faults on the small files of the default procedure
            let f2 = tier == Tier::Thorough || (!imm && delay == 0 && size <= 17);
            if f2 {
                let mut s2 = s.clone();
                s2.name = format!("c02 {} F=2 duot", nm);
                all_kinds(&mut s2, 2);
                scns.push(s2);
            } else {
                scns.push(s.clone());
            }
            if tier == Tier::Thorough && (size == 17 || size == 47 || size == 0) {
                // F = 3 < limit with drops only, and the CRC variant of the link
                let mut s3 = s.clone();
                s3.name = format!("c02 {} F=3 d", nm);
                s3.faults = 3;
                s3.k_dup = false;
                s3.k_overtake = false;
                s3.k_delay = false;
                s3.max_count = 4; // "fewer consecutive losses than the limit": 3 < 4
                scns.push(s3);
            }
            if size == 17 {
                let mut s4 = s.clone();
                s4.name = format!("c02 {} F=1 duotc crc", nm);
                s4.crc = true;
                s4.k_corrupt = true;
                scns.push(s4);
            }
        }
    }
    scns
}

pub fn c02(args: &Args) -> Report {
    let mk: &MkMon = &|_s: &Scenario| Box::new(mons::C02::default());
    if args.replay.is_some() {
        return replay_e1(args, mk);
    }
    let res = run_all(c02_scenarios(args.tier), mk, args.tier);
    fold(res, &GEN, 0, json!({}))
}

const GEN: [&str; 4] = ["panic", "codec", "deadlock", "livelock"];

fn mode_grid(tier: Tier) -> Vec<(bool, bool)> {
    // (acknowledged, closure)
    tier.pick(vec![(true, false), (false, false), (false, true)], vec![(true, false), (true, true), (false, false), (false, true)])
}

pub fn c01(args: &Args) -> Report {
    let mk: &MkMon = &|_s: &Scenario| Box::new(mons::C01::default());
    if args.replay.is_some() {
        return replay_e1(args, mk);
    }
    let mut scns = vec![];
    let f = args.tier.pick(1, 2);
    for (ack, closure) in mode_grid(args.tier) {
        for null in [false, true] {
            // contents: ramp, zeros, checksum-neutral block in the first / middle / last segment
            let contents: Vec<(u64, Content)> = args.tier.pick(
                vec![(17, Content::Ramp), (32, Content::NeutralAt(0)), (32, Content::NeutralAt(1)), (0, Content::Ramp), (32, Content::Zeros)],
                vec![(17, Content::Ramp), (1, Content::Ramp), (0, Content::Ramp), (32, Content::Zeros), (48, Content::NeutralAt(0)), (48, Content::NeutralAt(1)), (48, Content::NeutralAt(2)), (47, Content::Ramp), (40, Content::NeutralAt(2))],
            );
            for (size, content) in contents {
                if null && matches!(content, Content::NeutralAt(_) | Content::Zeros) {
                    continue; // with the null checksum every content is "neutral"
                }
                let naks: Vec<(bool, u64)> = if ack { naks(args.tier) } else { vec![(false, 0)] };
                for (imm, delay) in naks {
                    let mut s = Scenario::base(&format!("c01 {}{} {} size={} {:?} nak={}{} F={}", if ack { "ack" } else { "unack" }, if closure { "+closure" } else { "" }, if null { "null" } else { "modular" }, size, content, if imm { "imm" } else { "def" }, delay, f));
                    s.ack = ack;
                    s.closure = closure;
                    s.null_checksum = null;
                    s.file_size = Some(size);
                    s.content = content.clone();
                    s.nak_immediate = imm;
                    s.nak_delay_s = delay;
                    s.faults = f;
                    s.k_drop = true;
                    s.k_dup = true;
                    s.k_overtake = true;
                    s.k_delay = args.tier == Tier::Thorough;
                    scns.push(s);
                }
            }
        }
        // CRC on: payload corruption is a fault kind
        let mut s = Scenario::base(&format!("c01 {}{} crc size=17 F=1 corrupt", if ack { "ack" } else { "unack" }, if closure { "+closure" } else { "" }));
        s.ack = ack;
        s.closure = closure;
        s.file_size = Some(17);
        s.crc = true;
        s.faults = 1;
        s.k_corrupt = true;
        s.k_drop = true;
        scns.push(s);
    }
    let res = run_all(scns, mk, args.tier);
    fold(res, &["panic", "codec"], 0, json!({}))
}

/// debugging aid: vcheck DBG <file.json> with {"scenario":…, "histories":[[…],[…]]}
pub fn dbg(args: &Args) -> Report {
    let mk: &MkMon = &|_s: &Scenario| Box::new(mons::C02::default());
    let v: serde_json::Value = serde_json::from_str(&std::fs::read_to_string(&args.extra[0]).unwrap()).unwrap();
    let scn: Scenario = serde_json::from_value(v["scenario"].clone()).unwrap();
    let scn = std::sync::Arc::new(scn);
    for h in v["histories"].as_array().unwrap() {
        let events: Vec<Ev> = serde_json::from_value(h.clone()).unwrap();
        let run = replay(&scn, &events, mk, false).unwrap();
        println!("== {:?}\n{}", events, run.key);
        let en = run.enabled.clone();
        println!("enabled: {:?}", en);
        for e in en {
            let mut h2 = events.clone();
            h2.push(e.clone());
            let r2 = replay(&scn, &h2, mk, false).unwrap();
            println!("  {:?} -> {}", e, step_brief(r2.recs.last().unwrap()));
            println!("      {}", r2.key.replace('\n', "\n      "));
        }
    }
    let mut rep = Report::new("other");
    rep.coverage = json!({"explanation": "debug"});
    rep
}
