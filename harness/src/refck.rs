//! The CCSDS modular checksum written naively from its definition (reference for C07/C14).
pub fn modular_checksum(data: &[u8]) -> u32 {
    let mut padded = data.to_vec();
    while padded.len() % 4 != 0 {
        padded.push(0);
    }
    padded.chunks(4).fold(0u32, |acc, w| acc.wrapping_add(u32::from_be_bytes([w[0], w[1], w[2], w[3]])))
}
