//! E1 search: level-synchronous breadth-first exploration to closure over event histories of the
//! direct world. A state *is* its history (rebuilt by replay on fresh real objects); its identity
//! is the hash of the canonical key (world fingerprint + monitor memory). Expansion runs on 16
//! cores, merging is sequential and ordered, so representatives, counts and counterexamples are
//! deterministic.
use crate::common::*;
use crate::world::*;
use rayon::prelude::*;
use serde_json::{json, Value};
use std::collections::{BTreeMap, HashMap};
use std::hash::{Hash, Hasher};
use std::sync::Arc;

pub struct MonViolation {
    pub clause: &'static str,
    /// canonical, history-independent detail that identifies the root cause
    pub sig: String,
    pub detail: String,
}

pub struct Ctx<'a> {
    pub scn: &'a Scenario,
    pub src: &'a [u8],
    pub out: Vec<MonViolation>,
    pub armed: Vec<&'static str>,
}
impl<'a> Ctx<'a> {
    pub fn flag(&mut self, clause: &'static str, sig: impl Into<String>, detail: impl Into<String>) {
        self.out.push(MonViolation { clause, sig: sig.into(), detail: detail.into() });
    }
    pub fn arm(&mut self, clause: &'static str) {
        self.armed.push(clause);
    }
}

/// A per-property oracle automaton. `step` is fed every step of a history in order; its memory
/// (`key`) is part of the state identity, so merging never loses what the oracle needs.
pub trait Monitor {
    fn step(&mut self, rec: &StepRec, ctx: &mut Ctx);
    /// called on a state in which no event is enabled (not when the depth cap cut it)
    fn terminal(&mut self, _last: &Obs, _ctx: &mut Ctx) {}
    fn key(&self) -> String;
    /// label of a terminal state for the outcome tally (vacuity guard)
    fn outcome(&self) -> String {
        String::new()
    }
}
pub type MkMon = dyn Fn(&Scenario) -> Box<dyn Monitor> + Sync;

fn h128(s: &str) -> u128 {
    let mut a = std::collections::hash_map::DefaultHasher::new();
    s.hash(&mut a);
    let mut b = std::collections::hash_map::DefaultHasher::new();
    0x9e3779b97f4a7c15u64.hash(&mut b);
    s.hash(&mut b);
    ((a.finish() as u128) << 64) | b.finish() as u128
}
fn h64(s: &str) -> u64 {
    let mut a = std::collections::hash_map::DefaultHasher::new();
    s.hash(&mut a);
    a.finish()
}

/// generic outcome tracker (not part of the key; used for tallies only)
#[derive(Default, Clone)]
pub struct Track {
    pub s_fin: Option<String>,
    pub r_fin: Option<String>,
    pub faults: Vec<String>,
}
impl Track {
    fn step(&mut self, rec: &StepRec) {
        use cfdp_core::daemon::Indication;
        for (side, i) in &rec.inds {
            match i {
                Indication::Finished(f) => {
                    let s = format!("{:?}/{:?}/{:?}", f.report.condition, f.delivery_code, f.file_status);
                    match side {
                        Side::S => self.s_fin = Some(s),
                        Side::R => self.r_fin = Some(s),
                    }
                }
                Indication::Fault(f) => self.faults.push(format!("{:?}:{:?}", side, f.condition)),
                Indication::Abandon(f) => self.faults.push(format!("{:?}:Abandon({:?})", side, f.condition)),
                _ => {}
            }
        }
    }
}

pub struct Run {
    pub world: World,
    pub mon: Box<dyn Monitor>,
    pub track: Track,
    pub recs: Vec<StepRec>,
    pub last_viols: Vec<MonViolation>,
    pub last_armed: Vec<&'static str>,
    /// canonical state key and enabled events, computed inside the runtime (virtual clock)
    pub key: String,
    pub enabled: Vec<Ev>,
}

/// replay a history on fresh real objects; monitor verdicts are collected for the last step only
pub fn replay(scn: &Arc<Scenario>, hist: &[Ev], mk: &MkMon, keep_recs: bool) -> Result<Run, String> {
    on_rt(async {
        let mut world = World::new(scn.clone());
        let mut mon = mk(scn);
        let mut track = Track::default();
        let mut recs = vec![];
        let mut last_viols = vec![];
        let mut last_armed = vec![];
        let src = world.src.clone();
        for (i, ev) in hist.iter().enumerate() {
            if !world.enabled().contains(ev) {
                return Err(format!("replay divergence: event #{} {:?} is not enabled (enabled: {:?})", i, ev, world.enabled()));
            }
            let rec = world.apply(ev).await;
            let mut ctx = Ctx { scn, src: &src, out: vec![], armed: vec![] };
            mon.step(&rec, &mut ctx);
            track.step(&rec);
            if i + 1 == hist.len() {
                last_viols = ctx.out;
                last_armed = ctx.armed;
                if keep_recs {
                    recs.push(rec);
                } else {
                    recs = vec![rec];
                }
            } else if keep_recs {
                recs.push(rec);
            }
        }
        let key = format!("{}\nM[{}]", world.key_string(), mon.key());
        let enabled = world.enabled();
        Ok(Run { world, mon, track, recs, last_viols, last_armed, key, enabled })
    })
}

struct Succ {
    ev: Ev,
    key: u128,
    out_digest: u64,
    viols: Vec<MonViolation>,
    generic: Vec<MonViolation>,
    armed: Vec<&'static str>,
    terminal: bool,
    capped: bool,
    outcome: String,
    fatal: bool,
    /// the path is cut here: a spin was reported
    spin: bool,
}
struct Expansion {
    succs: Vec<Succ>,
    error: Option<String>,
}

fn digest_rec(rec: &StepRec) -> u64 {
    use cfdp_core::pdu::PDUEncode;
    let mut s = String::new();
    for (side, p) in &rec.out {
        s.push_str(&format!("{:?}:{};", side, hex(&p.clone().encode())));
    }
    let mut inds: Vec<String> = rec.inds.iter().map(|(side, i)| format!("{:?}:{:?}", side, i)).collect();
    inds.sort(); // the indications of one step are a set (each is its own spawned task)
    s.push_str(&inds.join(";"));
    if let Some(e) = &rec.err {
        s.push_str(&format!("err{:?}", e));
    }
    if let Some(p) = &rec.panic {
        s.push_str(&format!("panic{:?}", p.0));
    }
    h64(&s)
}

fn one_succ(scn: &Arc<Scenario>, hist: &[Ev], ev: &Ev, mk: &MkMon) -> Result<Succ, String> {
    let mut h = hist.to_vec();
    h.push(ev.clone());
    let mut run = replay(scn, &h, mk, false)?;
    let rec = run.recs.pop().unwrap();
    let mut generic = vec![];
    if let Some((side, p)) = &rec.panic {
        generic.push(MonViolation { clause: "panic", sig: format!("{:?}|{}", side, p.chars().take(80).collect::<String>()), detail: format!("handler of {:?} panicked: {}", side, p) });
    }
    if let Some(m) = &rec.codec_mismatch {
        generic.push(MonViolation { clause: "codec", sig: "emitted-pdu".into(), detail: m.clone() });
    }
    let fatal = rec.err.as_ref().map_or(false, |e| e.2);
    // generic spin: one side keeps emitting PDUs without any input or timer in between — more of
    // them than the whole file plus every directive of the exchange amounts to
    let mut spin = false;
    if let Ev::Send(side) = ev {
        // events that hand nothing to `side` do not interrupt its run
        let no_input = |e: &Ev| match e {
            Ev::Send(_) | Ev::Drop(_) => true,
            Ev::Deliver(l) | Ev::Overtake(l, _) | Ev::Dup(l, _) | Ev::Corrupt(l, _) | Ev::Straggler(l, _) => l.to() != *side,
            Ev::Timeout(s2, _) | Ev::User(s2, _) => s2 != side,
            _ => false,
        };
        let run_len = h.iter().rev().take_while(|e| no_input(e)).filter(|e| matches!(e, Ev::Send(s2) if s2 == side)).count() as u64;
        let nsegs = scn.file_size.map_or(0, |n| (n + scn.seg as u64 - 1) / scn.seg.max(1) as u64);
        if run_len > nsegs + 8 {
            spin = true;
            let last = rec.out.last().map(|(_, p)| pdu_brief(p)).unwrap_or_default();
            generic.push(MonViolation {
                clause: "spin",
                sig: format!("{:?}", side),
                detail: format!("{:?} emitted {} PDUs in a row with no input and no timer in between (the file has {} segments); the last one is {}: it spins", side, run_len, nsegs, last),
            });
        }
    }
    let key_s = run.key.clone();
    let enabled = run.enabled.clone();
    let capped = run.world.steps >= scn.max_depth;
    let terminal = enabled.is_empty() && !capped && !spin;
    let mut viols = run.last_viols;
    let mut armed = run.last_armed;
    let mut outcome = String::new();
    if terminal {
        let src = run.world.src.clone();
        let mut ctx = Ctx { scn, src: &src, out: vec![], armed: vec![] };
        run.mon.terminal(&rec.obs, &mut ctx);
        viols.extend(ctx.out);
        armed.extend(ctx.armed);
        // generic deadlock: an Active transaction that nothing can ever move again
        for side in [Side::S, Side::R] {
            if rec.obs.life(side) == Life::Active {
                let sub = match side {
                    Side::S => rec.obs.s_sub,
                    Side::R => rec.obs.r_sub,
                };
                generic.push(MonViolation {
                    clause: "deadlock",
                    sig: format!("{:?}:{}", side, sub),
                    detail: format!("{:?} is Active in sub-state {} with nothing to send, nothing in flight towards it and every timer paused: it waits forever", side, sub),
                });
            }
        }
        outcome = format!(
            "S:{:?}[{}] R:{:?}[{}] {}",
            rec.obs.s_life,
            run.track.s_fin.clone().unwrap_or("-".into()),
            rec.obs.r_life,
            run.track.r_fin.clone().unwrap_or("-".into()),
            run.mon.outcome()
        );
    }
    Ok(Succ { ev: ev.clone(), key: h128(&key_s), out_digest: digest_rec(&rec), viols, generic, armed, terminal, capped, outcome, fatal, spin })
}

fn expand(scn: &Arc<Scenario>, hist: &[Ev], mk: &MkMon) -> Expansion {
    let base = match replay(scn, hist, mk, false) {
        Ok(r) => r,
        Err(e) => return Expansion { succs: vec![], error: Some(e) },
    };
    let enabled = base.enabled.clone();
    drop(base);
    let mut succs = vec![];
    for ev in &enabled {
        match one_succ(scn, hist, ev, mk) {
            Ok(s) => succs.push(s),
            Err(e) => return Expansion { succs, error: Some(e) },
        }
    }
    Expansion { succs, error: None }
}

fn exp_digest(e: &Expansion) -> u64 {
    let mut v: Vec<String> = e.succs.iter().map(|s| format!("{:?}>{:032x}/{:016x}", s.ev, s.key, s.out_digest)).collect();
    v.sort();
    h64(&v.join("|"))
}

#[derive(Default)]
pub struct ExploreResult {
    pub scenario: String,
    pub states: u64,
    pub transitions: u64,
    pub max_depth: usize,
    pub terminals: u64,
    pub outcomes: BTreeMap<String, u64>,
    pub armed: BTreeMap<&'static str, u64>,
    /// (wrapped violation, count) by signature, monitor clauses
    pub violations: Vec<Violation>,
    /// generic clauses: panic, codec, deadlock, livelock
    pub generic: Vec<Violation>,
    pub viol_counts: BTreeMap<String, u64>,
    pub audit_pairs: u64,
    pub dup_hits: u64,
    pub fatal_steps: u64,
    pub machinery_errors: Vec<String>,
    pub capped: bool,
    pub sample: Option<Value>,
    pub wall_s: f64,
}

pub struct Opts {
    pub max_states: u64,
    pub audit_cap: usize,
    pub wall_cap_s: f64,
}
impl Opts {
    pub fn for_tier(t: Tier) -> Opts {
        Opts { max_states: t.pick(400_000, 6_000_000), audit_cap: t.pick(150, 3000), wall_cap_s: t.pick(120.0, 3600.0) }
    }
}

pub fn history_of(parent: &HashMap<u128, (u128, Ev)>, mut k: u128, root: u128) -> Vec<Ev> {
    let mut h = vec![];
    while k != root {
        let (p, ev) = parent.get(&k).expect("parent");
        h.push(ev.clone());
        k = *p;
    }
    h.reverse();
    h
}

fn wrap(scn: &Scenario, hist: &[Ev], v: &MonViolation, trace: Option<String>) -> Violation {
    Violation {
        clause: v.clause.to_string(),
        signature: format!("{}|{}|{}", v.clause, scn.class(), v.sig),
        detail: format!("{}\nscenario: {}\n{}", v.detail, scn.name, trace.unwrap_or_default()),
        replay: json!({"engine": "txn-mc", "scenario": scn, "events": hist}),
    }
}

pub fn trace_text(scn: &Arc<Scenario>, hist: &[Ev], mk: &MkMon) -> String {
    match replay(scn, hist, mk, true) {
        Ok(run) => run.recs.iter().map(step_brief).collect::<Vec<_>>().join("\n"),
        Err(e) => format!("(trace unavailable: {})", e),
    }
}

pub fn explore(scn: Scenario, mk: &MkMon, opts: &Opts) -> ExploreResult {
    let started = std::time::Instant::now();
    let scn = Arc::new(scn);
    let mut res = ExploreResult { scenario: scn.name.clone(), ..Default::default() };
    // root
    let root_run = match replay(&scn, &[], mk, false) {
        Ok(r) => r,
        Err(e) => {
            res.machinery_errors.push(e);
            return res;
        }
    };
    let root_key = h128(&root_run.key);
    drop(root_run);
    let mut parent: HashMap<u128, (u128, Ev)> = HashMap::new();
    let mut depth_of: HashMap<u128, u32> = HashMap::new();
    depth_of.insert(root_key, 0);
    let mut digests: HashMap<u128, u64> = HashMap::new();
    let mut edges: Vec<(u128, u128, Ev)> = vec![];
    let mut audit: Vec<(u128, Vec<Ev>)> = vec![];
    let mut frontier = vec![root_key];
    let mut sig_seen: HashMap<String, usize> = HashMap::new();
    let mut gsig_seen: HashMap<String, usize> = HashMap::new();
    res.states = 1;
    let mut depth = 0usize;
    while !frontier.is_empty() {
        depth += 1;
        let hists: Vec<Vec<Ev>> = frontier.iter().map(|k| history_of(&parent, *k, root_key)).collect();
        let exps: Vec<Expansion> = hists.par_iter().map(|h| expand(&scn, h, mk)).collect();
        let mut next = vec![];
        for ((from, hist), exp) in frontier.iter().zip(hists.iter()).zip(exps.into_iter()) {
            if let Some(e) = &exp.error {
                res.machinery_errors.push(format!("{} after {:?}", e, hist));
                continue;
            }
            digests.insert(*from, exp_digest(&exp));
            for s in exp.succs {
                res.transitions += 1;
                edges.push((*from, s.key, s.ev.clone()));
                for a in &s.armed {
                    *res.armed.entry(a).or_insert(0) += 1;
                }
                if s.fatal {
                    res.fatal_steps += 1;
                }
                let mut h2: Option<Vec<Ev>> = None;
                let mut full = |h2: &mut Option<Vec<Ev>>| {
                    if h2.is_none() {
                        let mut h = hist.clone();
                        h.push(s.ev.clone());
                        *h2 = Some(h);
                    }
                    h2.clone().unwrap()
                };
                for v in &s.viols {
                    let sig = format!("{}|{}|{}", v.clause, scn.class(), v.sig);
                    *res.viol_counts.entry(sig.clone()).or_insert(0) += 1;
                    if !sig_seen.contains_key(&sig) {
                        let h = full(&mut h2);
                        sig_seen.insert(sig, res.violations.len());
                        let tr = trace_text(&scn, &h, mk);
                        res.violations.push(wrap(&scn, &h, v, Some(tr)));
                    }
                }
                for v in &s.generic {
                    let sig = format!("{}|{}|{}", v.clause, scn.class(), v.sig);
                    *res.viol_counts.entry(sig.clone()).or_insert(0) += 1;
                    if !gsig_seen.contains_key(&sig) {
                        let h = full(&mut h2);
                        gsig_seen.insert(sig, res.generic.len());
                        let tr = trace_text(&scn, &h, mk);
                        res.generic.push(wrap(&scn, &h, v, Some(tr)));
                    }
                }
                if s.capped {
                    res.capped = true;
                }
                if depth_of.contains_key(&s.key) {
                    res.dup_hits += 1;
                    if audit.len() < opts.audit_cap && !s.terminal && !s.capped {
                        audit.push((s.key, full(&mut h2)));
                    }
                    continue;
                }
                depth_of.insert(s.key, depth as u32);
                parent.insert(s.key, (*from, s.ev.clone()));
                res.states += 1;
                res.max_depth = depth;
                if s.terminal {
                    res.terminals += 1;
                    *res.outcomes.entry(s.outcome.clone()).or_insert(0) += 1;
                    digests.insert(s.key, 0);
                    if res.sample.is_none() {
                        let h = full(&mut h2);
                        res.sample = Some(json!({"scenario": scn.name, "history": h.iter().map(|e| format!("{:?}", e)).collect::<Vec<_>>(), "outcome": s.outcome}));
                    }
                } else if s.spin {
                    digests.insert(s.key, 0);
                } else if !s.capped {
                    next.push(s.key);
                }
            }
        }
        frontier = next;
        if res.states > opts.max_states || started.elapsed().as_secs_f64() > opts.wall_cap_s {
            res.capped = true;
            res.machinery_errors.push(format!(
                "scenario {} hit the state/wall cap at depth {} ({} states): NOT exhaustive",
                scn.name, depth, res.states
            ));
            break;
        }
    }
    // ---- bisimulation audit: a duplicate history must have the same one-step futures as its
    // representative (same enabled events, same outputs, same successor keys)
    let audit_res: Vec<(u128, Vec<Ev>, u64)> = audit.par_iter().map(|(k, h)| (*k, h.clone(), exp_digest(&expand(&scn, h, mk)))).collect();
    for (k, h, d) in audit_res {
        if let Some(rep) = digests.get(&k) {
            res.audit_pairs += 1;
            if *rep != d {
                let rep_h = history_of(&parent, k, root_key);
                res.machinery_errors.push(format!(
                    "bisimulation audit failed in {}: histories {:?} and {:?} have the same state key but different one-step futures (a field is missing from the fingerprint)",
                    scn.name, rep_h, h
                ));
                break;
            }
        }
    }
    // ---- cycle detection (Kahn): keys abstract absolute time away, so a cycle is a behaviour
    // that can go on forever
    if !res.capped {
        let mut indeg: HashMap<u128, u32> = depth_of.keys().map(|k| (*k, 0)).collect();
        let mut adj: HashMap<u128, Vec<u128>> = HashMap::new();
        for (a, b, _) in &edges {
            *indeg.get_mut(b).unwrap() += 1;
            adj.entry(*a).or_default().push(*b);
        }
        let mut q: Vec<u128> = indeg.iter().filter(|(_, d)| **d == 0).map(|(k, _)| *k).collect();
        let mut removed = 0u64;
        while let Some(k) = q.pop() {
            removed += 1;
            if let Some(ns) = adj.get(&k) {
                for n in ns {
                    let d = indeg.get_mut(n).unwrap();
                    *d -= 1;
                    if *d == 0 {
                        q.push(*n);
                    }
                }
            }
        }
        if removed < depth_of.len() as u64 && !scn.allow_cycles {
            // what Kahn leaves lies on or behind a cycle; pruning backwards (nodes without a
            // successor among those left) keeps the nodes on cycles and between them
            let mut left: std::collections::HashSet<u128> = indeg.iter().filter(|(_, d)| **d > 0).map(|(k, _)| *k).collect();
            let behind = left.len();
            loop {
                let dead: Vec<u128> = left.iter().filter(|k| !adj.get(*k).map_or(false, |ns| ns.iter().any(|n| left.contains(n)))).cloned().collect();
                if dead.is_empty() {
                    break;
                }
                for d in dead {
                    left.remove(&d);
                }
            }
            // the shallowest such node, then a walk inside the set until a state repeats
            let mut cand: Vec<(u32, u128)> = left.iter().map(|k| (depth_of[k], *k)).collect();
            cand.sort();
            let k = cand[0].1;
            let mut h = history_of(&parent, k, root_key);
            let mut succ_ev: HashMap<u128, (u128, Ev)> = HashMap::new();
            for (a, b, ev) in &edges {
                if left.contains(a) && left.contains(b) {
                    let e = succ_ev.entry(*a).or_insert((*b, ev.clone()));
                    // prefer the smallest successor for a deterministic walk
                    if *b < e.0 {
                        *e = (*b, ev.clone());
                    }
                }
            }
            let mut seen_at: HashMap<u128, usize> = HashMap::new();
            let mut cur = k;
            let mut walk: Vec<Ev> = vec![];
            while !seen_at.contains_key(&cur) {
                seen_at.insert(cur, walk.len());
                let (n, ev) = succ_ev[&cur].clone();
                walk.push(ev);
                cur = n;
            }
            let loop_from = seen_at[&cur];
            let prefix_len = h.len() + loop_from;
            h.extend(walk.iter().cloned());
            let v = MonViolation {
                clause: "livelock",
                sig: "cycle".into(),
                detail: format!(
                    "the state graph has a cycle ({} of {} states lie on cycles, {} on or behind one): the events from step #{} on lead back to the state before step #{} and can repeat forever",
                    left.len(),
                    depth_of.len(),
                    behind,
                    prefix_len,
                    prefix_len
                ),
            };
            let tr = trace_text(&scn, &h, mk);
            res.generic.push(wrap(&scn, &h, &v, Some(tr)));
        }
    }
    // ---- determinism self-check: replay the deepest history twice
    if let Some((k, _)) = depth_of.iter().max_by_key(|(k, d)| (**d, **k)) {
        let h = history_of(&parent, *k, root_key);
        let a = trace_text(&scn, &h, mk);
        let b = trace_text(&scn, &h, mk);
        if a != b {
            res.machinery_errors.push(format!("nondeterministic replay in {}", scn.name));
        }
    }
    res.wall_s = started.elapsed().as_secs_f64();
    res
}

/// Fold per-scenario results into a Report (model_checking level).
pub fn fold(results: Vec<ExploreResult>, generic_clauses: &[&str], traces_validated: u64, extra: Value) -> Report {
    let mut rep = Report::new("model_checking");
    let mut states = 0;
    let mut transitions = 0;
    let mut max_depth = 0;
    let mut outcomes: BTreeMap<String, u64> = BTreeMap::new();
    let mut armed: BTreeMap<String, u64> = BTreeMap::new();
    let mut audit = 0;
    let mut samples = vec![];
    let mut per = vec![];
    let mut capped = false;
    let mut fatal = 0;
    let mut sig_counts: BTreeMap<String, u64> = BTreeMap::new();
    for r in results {
        states += r.states;
        transitions += r.transitions;
        max_depth = max_depth.max(r.max_depth);
        for (k, v) in &r.outcomes {
            *outcomes.entry(k.clone()).or_insert(0) += v;
        }
        for (k, v) in &r.armed {
            *armed.entry(k.to_string()).or_insert(0) += v;
        }
        for (k, v) in &r.viol_counts {
            *sig_counts.entry(k.clone()).or_insert(0) += v;
        }
        audit += r.audit_pairs;
        fatal += r.fatal_steps;
        capped |= r.capped;
        if samples.len() < 4 {
            if let Some(s) = r.sample.clone() {
                samples.push(s);
            }
        }
        per.push(json!({"scenario": r.scenario, "states": r.states, "transitions": r.transitions, "depth": r.max_depth, "terminals": r.terminals, "distinct_outcomes": r.outcomes.len(), "wall_s": (r.wall_s * 100.0).round() / 100.0}));
        rep.violations.extend(r.violations);
        for g in r.generic {
            if generic_clauses.iter().any(|c| *c == g.clause) {
                rep.violations.push(g);
            }
        }
        rep.machinery_errors.extend(r.machinery_errors);
    }
    if samples.is_empty() {
        samples.push(json!("no terminal state reached"));
    }
    rep.coverage = json!({
        "states": states,
        "transitions": transitions,
        "traces_validated_against_impl": traces_validated,
        "samples": samples,
        "max_depth": max_depth,
        "scenarios": per.len(),
        "per_scenario": per,
        "distinct_outcomes": outcomes.len(),
        "outcomes": outcomes,
        "clauses_armed": armed,
        "audit_pairs": audit,
        "fatal_error_steps": fatal,
        "violation_reports_by_signature": sig_counts,
        "exhaustive": !capped,
        "extra": extra,
    });
    rep
}
