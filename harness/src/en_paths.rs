//! C12 — E4: no name can make a filestore operation act outside the root.
//!
//! World (one per work chunk, on tmpfs):  `<scratch>/c12/w<k>/l1/l2/l3/l4/jail/{root, rootx}`.
//! `root` is the filestore root, `rootx` the sibling whose name extends the root's. In the
//! "populated" layout `l4`, `jail`, `rootx` (and the root) hold a directory `a` with a file `a/a`,
//! so that `..`-names that climb out find something to list, read, delete, rename or overwrite;
//! in the "bare" layout they hold only `canary.txt` and `a` is absent everywhere, so that
//! creations can succeed (only the creating entry points are run there, the others would find
//! nothing). The root sits five levels deep, so a name of <= 5 components cannot climb above the
//! snapshotted world; `l1..l3` are canaries by their mere existence.
//!
//! Names: every sequence of 1..=N components (quick 4, thorough 5) over
//! {`a`, `.`, `..`, `` (empty), R = absolute root path, X = absolute sibling path}, joined by `/` (also with the root configured with a trailing separator) or by `\\`,
//! with and without a leading `/`. (R as first component gives "the root path as a prefix followed
//! by `..`".) Every name x every entry point (27, see `ops()`) in the populated layout, every name
//! x the 7 creating entry points in the bare layout; fixed order.
//!
//! Oracles. Lexical: `get_native_path(name)` — and, for `process_request`, its re-application to
//! its own result, which is what the trait's default method does — resolved by the resolver below
//! (not the crate's) is the root or below it. Observational: the snapshot (names, types, contents)
//! of the world minus the root is unchanged by the operation. The world is rebuilt whenever its
//! snapshot differs from the pristine one, so every case starts from the same state.
//! Safety interlock: an operation is only executed when its native path resolves inside the
//! world (the harness runs as whatever user it is started as); otherwise the lexical verdict stands.
use crate::common::*;
use cfdp_core::filestore::{FileStore, NativeFileStore};
use cfdp_core::pdu::{FileStoreAction, FileStoreRequest};
use rayon::prelude::*;
use serde_json::{json, Value};
use std::collections::BTreeMap;
use std::fs;
use std::io::{Read, Write};
use std::path::{Path, PathBuf};

const COMPS: [&str; 6] = ["a", ".", "..", "", "R", "X"];
const LAYOUTS: [&str; 2] = ["populated", "bare"];
const ROOT_REL: &str = "l1/l2/l3/l4/jail/root";
/// directories outside the root that carry canary content
const OUTSIDE_DIRS: [&str; 3] = ["l1/l2/l3/l4", "l1/l2/l3/l4/jail", "l1/l2/l3/l4/jail/rootx"];
/// entry points that can create something: the only ones run in the bare layout
const CREATING: [&str; 7] = [
    "create_file(n)",
    "rename_file(in,n)",
    "create_directory(n)",
    "open-create-write(n)",
    "process_request(CreateFile,n,in)",
    "process_request(RenameFile,in,n)",
    "process_request(CreateDirectory,n,in)",
];

/// symbolic name: component indices into COMPS + leading slash
#[derive(Clone, Debug, PartialEq, Eq)]
struct Name {
    comps: Vec<u8>,
    lead: bool,
    /// 0: components joined by `/`; 1: the same with the filestore root configured with a
    /// trailing separator; 2: components joined (and led) by `\\`, the separator of another
    /// operating system, which a Unix filestore has to treat as an ordinary character
    style: u8,
}
impl Name {
    fn symbolic(&self) -> String {
        let parts: Vec<&str> = self.comps.iter().map(|&c| match COMPS[c as usize] { "R" => "<root>", "X" => "<root>x", s => s }).collect();
        let sep = self.sep();
        format!("{}{}{}", if self.lead { sep } else { "" }, parts.join(sep), if self.style == 1 { "   [root configured as <root>/]" } else { "" })
    }
    fn sep(&self) -> &'static str {
        if self.style == 2 {
            "\\"
        } else {
            "/"
        }
    }
    fn concrete(&self, root: &str) -> String {
        let parts: Vec<String> = self
            .comps
            .iter()
            .map(|&c| match COMPS[c as usize] {
                "R" => root.to_string(),
                "X" => format!("{}x", root),
                s => s.to_string(),
            })
            .collect();
        let sep = self.sep();
        format!("{}{}", if self.lead { sep } else { "" }, parts.join(sep))
    }
    /// root-cause class of a name
    fn class(&self) -> String {
        format!("{}{}", self.class0(), ["", "+root-with-trailing-separator", "+backslash-separators"][self.style as usize])
    }
    fn class0(&self) -> &'static str {
        let has = |s: &str| self.comps.iter().any(|&c| COMPS[c as usize] == s);
        // the first component that is not `.` or empty is what the name "starts with"
        let first = self.comps.iter().map(|&c| COMPS[c as usize]).find(|c| !c.is_empty() && *c != ".").unwrap_or("");
        match first {
            "R" => "name-starts-with-root",
            "X" => "name-starts-with-sibling-of-root",
            _ if has("R") || has("X") => "name-contains-root-path",
            _ if has("..") => "relative-name-with-dotdot",
            _ => "plain-name",
        }
    }
    fn json(&self) -> Value {
        json!({"comps": self.comps.iter().map(|&c| COMPS[c as usize]).collect::<Vec<_>>(), "lead": self.lead, "style": self.style, "symbolic": self.symbolic()})
    }
    fn from_json(v: &Value) -> Name {
        let comps = v["comps"].as_array().unwrap().iter().map(|c| COMPS.iter().position(|x| Some(*x) == c.as_str()).expect("component") as u8).collect();
        Name { comps, lead: v["lead"].as_bool().unwrap(), style: v["style"].as_u64().unwrap_or(0) as u8 }
    }
}

fn all_names(max: usize) -> Vec<Name> {
    let mut out = vec![];
    for n in 1..=max {
        let total = 6usize.pow(n as u32);
        for idx in 0..total {
            // lexicographic in component index, most significant first
            let mut comps = vec![0u8; n];
            let mut x = idx;
            for i in (0..n).rev() {
                comps[i] = (x % 6) as u8;
                x /= 6;
            }
            for lead in [false, true] {
                for style in 0..3u8 {
                    out.push(Name { comps: comps.clone(), lead, style });
                }
            }
        }
    }
    out
}

/// the harness's own resolver: absolute path string -> normal components (None: not absolute)
fn resolve(p: &str) -> Option<Vec<String>> {
    if !p.starts_with('/') {
        return None;
    }
    let mut st: Vec<String> = vec![];
    for c in p.split('/') {
        match c {
            "" | "." => {}
            ".." => {
                st.pop();
            }
            x => st.push(x.to_string()),
        }
    }
    Some(st)
}
fn under(res: &Option<Vec<String>>, base: &[String]) -> bool {
    matches!(res, Some(r) if r.len() >= base.len() && r[..base.len()] == base[..])
}

const ACTIONS: [(&str, FileStoreAction); 9] = [
    ("CreateFile", FileStoreAction::CreateFile),
    ("DeleteFile", FileStoreAction::DeleteFile),
    ("RenameFile", FileStoreAction::RenameFile),
    ("AppendFile", FileStoreAction::AppendFile),
    ("ReplaceFile", FileStoreAction::ReplaceFile),
    ("CreateDirectory", FileStoreAction::CreateDirectory),
    ("RemoveDirectory", FileStoreAction::RemoveDirectory),
    ("DenyFile", FileStoreAction::DenyFile),
    ("DenyDirectory", FileStoreAction::DenyDirectory),
];

/// entry points; `n` is the enumerated name, `in` an existing file inside the root, `new` an
/// absent name inside the root
fn ops() -> Vec<String> {
    let mut v: Vec<String> = [
        "get_native_path(n)",
        "create_file(n)",
        "delete_file(n)",
        "rename_file(n,new)",
        "rename_file(in,n)",
        "append_file(n,in)",
        "append_file(in,n)",
        "replace_file(n,in)",
        "replace_file(in,n)",
        "create_directory(n)",
        "remove_directory(n)",
        "list_directory(n)",
        "open-read(n)",
        "open-create-write(n)",
        "get_size(n)",
    ]
    .iter()
    .map(|s| s.to_string())
    .collect();
    for (a, _) in ACTIONS.iter() {
        v.push(format!("process_request({},n,{})", a, if *a == "RenameFile" { "new" } else { "in" }));
        if ["RenameFile", "AppendFile", "ReplaceFile"].contains(a) {
            v.push(format!("process_request({},in,n)", a));
        }
    }
    v
}

#[derive(Clone, PartialEq, Eq, Debug)]
enum Node {
    Dir,
    File(Vec<u8>),
    Other,
}
type Snap = BTreeMap<String, Node>;

fn snapshot(top: &Path) -> Snap {
    fn walk(dir: &Path, rel: &str, out: &mut Snap) {
        let Ok(rd) = fs::read_dir(dir) else { return };
        for e in rd.flatten() {
            let name = e.file_name().to_string_lossy().to_string();
            let r = if rel.is_empty() { name.clone() } else { format!("{}/{}", rel, name) };
            match e.file_type() {
                Ok(t) if t.is_dir() => {
                    out.insert(r.clone(), Node::Dir);
                    walk(&e.path(), &r, out);
                }
                Ok(t) if t.is_file() => {
                    out.insert(r, Node::File(fs::read(e.path()).unwrap_or_default()));
                }
                _ => {
                    out.insert(r, Node::Other);
                }
            }
        }
    }
    let mut out = Snap::new();
    walk(top, "", &mut out);
    out
}
fn is_inside(rel: &str) -> bool {
    rel == ROOT_REL || rel.starts_with(&format!("{}/", ROOT_REL))
}
fn diff_outside(before: &Snap, after: &Snap) -> Vec<String> {
    let mut d = vec![];
    for (k, v) in before {
        if is_inside(k) {
            continue;
        }
        match after.get(k) {
            None => d.push(format!("removed {}", k)),
            Some(w) if w != v => d.push(format!("changed {}", k)),
            _ => {}
        }
    }
    for k in after.keys() {
        if !is_inside(k) && !before.contains_key(k) {
            d.push(format!("created {}", k));
        }
    }
    d
}

struct Jail {
    top: PathBuf,
    root: String,
    layout: usize,
    pristine: Snap,
    top_res: Vec<String>,
    root_res: Vec<String>,
}
impl Jail {
    fn new(top: PathBuf, layout: usize) -> Jail {
        let root = top.join(ROOT_REL).to_str().expect("utf8 scratch").to_string();
        let mut j = Jail {
            top_res: resolve(top.to_str().unwrap()).expect("absolute scratch"),
            root_res: resolve(&root).unwrap(),
            top,
            root,
            layout,
            pristine: Snap::new(),
        };
        j.rebuild();
        j.pristine = snapshot(&j.top);
        j
    }
    fn rebuild(&mut self) {
        let _ = fs::remove_dir_all(self.top.join("l1"));
        let populated = LAYOUTS[self.layout] == "populated";
        fs::create_dir_all(self.top.join(OUTSIDE_DIRS[2])).expect("scratch");
        for d in OUTSIDE_DIRS {
            let p = self.top.join(d);
            if populated {
                fs::create_dir(p.join("a")).expect("scratch");
                fs::write(p.join("a/a"), format!("canary-a:{}", d)).expect("scratch");
            } else {
                fs::write(p.join("canary.txt"), format!("canary:{}", d)).expect("scratch");
            }
        }
        self.rebuild_root();
    }
    /// restore the inside of the root only (the common case: an operation did what it may do)
    fn rebuild_root(&mut self) {
        let r = self.top.join(ROOT_REL);
        let _ = fs::remove_dir_all(&r);
        fs::create_dir(&r).expect("scratch");
        fs::write(r.join("in"), "inside").expect("scratch");
        if LAYOUTS[self.layout] == "populated" {
            fs::create_dir(r.join("a")).expect("scratch");
            fs::write(r.join("a/a"), "in-root").expect("scratch");
        }
    }
    fn set_layout(&mut self, layout: usize) {
        if layout != self.layout {
            self.layout = layout;
            self.rebuild();
            self.pristine = snapshot(&self.top);
        }
    }
}

#[derive(Clone, Debug)]
struct Fail {
    /// lexical | observed | read-outside | panic
    kind: &'static str,
    sig: String,
    detail: String,
}

/// run one (name, op) in the jail; returns failures (empty = fine) and whether a read from
/// outside the root succeeded
fn eval(j: &mut Jail, name: &Name, op: &str, verbose: bool) -> Vec<Fail> {
    let fs_ = if name.style == 1 { NativeFileStore::new(&format!("{}/", j.root)) } else { NativeFileStore::new(&j.root) };
    let n = name.concrete(&j.root);
    let shown = name.symbolic();
    let mut fails = vec![];
    // lexical oracle on the effective path
    let p1 = match catch(|| fs_.get_native_path(&n).to_string()) {
        Ok(p) => p,
        Err(e) => {
            return vec![Fail { kind: "panic", sig: format!("panic|get_native_path|{}", name.class()), detail: format!("get_native_path({}) panicked: {}", shown, e) }];
        }
    };
    let p2 = catch(|| fs_.get_native_path(&p1).to_string()).unwrap_or_else(|_| String::from("<panic>"));
    let (r1, r2) = (resolve(&p1), resolve(&p2));
    let lex1 = under(&r1, &j.root_res);
    let lex2 = under(&r2, &j.root_res);
    let is_req = op.starts_with("process_request");
    let show_res = |r: &Option<Vec<String>>| r.as_ref().map(|c| format!("/{}", c.join("/"))).unwrap_or_else(|| "<relative>".into());
    let top_s = j.top.to_str().unwrap().to_string();
    let root_s = j.root.clone();
    let rel = move |s: &str| s.replace(&root_s, "<root>").replace(&top_s, "<world>");
    if verbose {
        println!("name {:?} = {:?}\n  get_native_path -> {:?} resolves to {} ({})", shown, n, p1, show_res(&r1), if lex1 { "inside root" } else { "OUTSIDE root" });
        println!("  re-applied      -> {:?} resolves to {} ({})", p2, show_res(&r2), if lex2 { "inside root" } else { "OUTSIDE root" });
    }
    // root-cause signature: an escape already visible in get_native_path is one defect,
    // whatever operation then uses the path
    let sig = if !lex1 {
        format!("escape|get_native_path|{}", name.class())
    } else if !lex2 && is_req {
        format!("escape|get_native_path-reapplied|{}", name.class())
    } else {
        format!("escape|{}|{}", op, name.class())
    };
    if !lex1 {
        fails.push(Fail {
            kind: "lexical",
            sig: sig.clone(),
            detail: format!("get_native_path({:?}) = {:?}, which resolves to {} — not the root {} or below it", shown, rel(&p1), rel(&show_res(&r1)), "<root>"),
        });
    } else if !lex2 && is_req {
        fails.push(Fail {
            kind: "lexical",
            sig: sig.clone(),
            detail: format!("process_request re-applies get_native_path: {:?} -> {:?} -> {:?}, which resolves outside the root", shown, rel(&p1), rel(&p2)),
        });
    }
    if op == "get_native_path(n)" {
        return fails;
    }
    // interlock: never execute an operation whose path leaves the sandbox world
    if !under(&r1, &j.top_res) || !under(&r2, &j.top_res) {
        if verbose {
            println!("  operation not executed: the native path leaves the sandbox world");
        }
        return fails;
    }
    let mut read_ok: Option<String> = None; // description of a successful read
    let res: Result<String, String> = catch(|| {
        let st = |r: Result<(), cfdp_core::filestore::FileStoreError>| match r {
            Ok(()) => "Ok".to_string(),
            Err(e) => format!("Err({})", e),
        };
        match op {
            "create_file(n)" => st(fs_.create_file(&n)),
            "delete_file(n)" => st(fs_.delete_file(&n)),
            "rename_file(n,new)" => st(fs_.rename_file(&n, "new")),
            "rename_file(in,n)" => st(fs_.rename_file("in", &n)),
            "append_file(n,in)" => st(fs_.append_file(&n, "in")),
            "append_file(in,n)" => st(fs_.append_file("in", &n)),
            "replace_file(n,in)" => st(fs_.replace_file(&n, "in")),
            "replace_file(in,n)" => st(fs_.replace_file("in", &n)),
            "create_directory(n)" => st(fs_.create_directory(&n)),
            "remove_directory(n)" => st(fs_.remove_directory(&n)),
            "list_directory(n)" => match fs_.list_directory(&n) {
                Ok(l) => {
                    read_ok = Some(format!("listed {} lines", l.lines().count()));
                    "Ok".into()
                }
                Err(e) => format!("Err({})", e),
            },
            "open-read(n)" => match fs_.open(&n, fs::OpenOptions::new().read(true)) {
                Ok(mut f) => {
                    let mut b = vec![];
                    if f.read_to_end(&mut b).is_ok() {
                        read_ok = Some(format!("read {:?}", String::from_utf8_lossy(&b)));
                    }
                    "Ok".into()
                }
                Err(e) => format!("Err({})", e),
            },
            "open-create-write(n)" => match fs_.open(&n, fs::OpenOptions::new().create(true).write(true).truncate(true)) {
                Ok(mut f) => {
                    let _ = f.write_all(b"written-by-c12");
                    "Ok".into()
                }
                Err(e) => format!("Err({})", e),
            },
            "get_size(n)" => match fs_.get_size(&n) {
                Ok(s) => {
                    read_ok = Some(format!("size {}", s));
                    "Ok".into()
                }
                Err(e) => format!("Err({})", e),
            },
            _ => {
                // process_request(<Action>,<first>,<second>)
                let inner = op.trim_start_matches("process_request(").trim_end_matches(')');
                let parts: Vec<&str> = inner.split(',').collect();
                let action = ACTIONS.iter().find(|(a, _)| *a == parts[0]).expect("action").1.clone();
                let pick = |s: &str| if s == "n" { n.clone() } else { s.to_string() };
                let req = FileStoreRequest { action_code: action, first_filename: pick(parts[1]).into(), second_filename: pick(parts[2]).into() };
                format!("{:?}", fs_.process_request(&req).action_and_status)
            }
        }
    });
    let after = snapshot(&j.top);
    let d = diff_outside(&j.pristine, &after);
    if verbose {
        println!("  {} with n = {:?} -> {:?}; changes outside the root: {:?}", op, shown, res, d);
    }
    match &res {
        Err(p) => fails.push(Fail { kind: "panic", sig: format!("panic|{}|{}", op, name.class()), detail: format!("{} with n = {:?} panicked: {}", op, shown, p) }),
        Ok(status) => {
            if !d.is_empty() {
                fails.push(Fail {
                    kind: "observed",
                    sig: sig.clone(),
                    detail: format!("{} with n = {:?} (layout {}) returned {} and changed the world outside the root: {}", op, shown, LAYOUTS[j.layout], status, d.join(", ")),
                });
            }
            // content of a file outside the root copied into the root (append/replace reading their
            // second file from an un-confined path): every outside file carries a canary text
            for (k, v) in &after {
                if let Node::File(bytes) = v {
                    if is_inside(k) && bytes.windows(6).any(|w| w == b"canary") && j.pristine.get(k) != Some(v) {
                        fails.push(Fail {
                            kind: "read-outside",
                            sig: format!("leak|{}|{}", op, name.class()),
                            detail: format!("{} with n = {:?} (layout {}) returned {} and copied data from outside the root into {}: {:?}", op, shown, LAYOUTS[j.layout], status, k, String::from_utf8_lossy(bytes)),
                        });
                    }
                }
            }
            if let Some(what) = &read_ok {
                let eff = if is_req { lex1 && lex2 } else { lex1 };
                if !eff {
                    fails.push(Fail {
                        kind: "read-outside",
                        sig: sig.clone(),
                        detail: format!("{} with n = {:?} (layout {}) succeeded on {} outside the root: {}", op, shown, LAYOUTS[j.layout], rel(&show_res(&r1)), what),
                    });
                }
            }
        }
    }
    if !d.is_empty() || res.is_err() {
        j.rebuild();
    } else if after != j.pristine {
        j.rebuild_root();
    }
    fails
}

pub fn run(args: &Args) -> Report {
    let mut rep = Report::new("exploration");
    let base = scratch_base().join("c12");
    let ops = ops();
    if let Some(p) = &args.replay {
        let v: Value = serde_json::from_str(&fs::read_to_string(p).expect("replay file")).expect("replay json");
        let c = &v["case"];
        let name = Name::from_json(&c["name"]);
        let layout = LAYOUTS.iter().position(|l| Some(*l) == c["layout"].as_str()).unwrap_or(0);
        let op = c["op"].as_str().unwrap().to_string();
        let mut j = Jail::new(base.join("replay"), layout);
        let mut fails = eval(&mut j, &name, &op, true);
        // the companion operations that showed the effect, if recorded
        for extra in c["also"].as_array().cloned().unwrap_or_default() {
            let l2 = LAYOUTS.iter().position(|l| Some(*l) == extra["layout"].as_str()).unwrap_or(0);
            j.set_layout(l2);
            fails.extend(eval(&mut j, &Name::from_json(&extra["name"]), extra["op"].as_str().unwrap(), true));
        }
        let want = v["signature"].as_str().unwrap_or("");
        if let Some(f) = fails.iter().find(|f| f.sig == want).or(fails.first()) {
            println!("still failing: {}", f.detail);
            rep.violations.push(Violation { clause: f.kind.to_string(), signature: f.sig.clone(), detail: f.detail.clone(), replay: c.clone() });
        } else {
            println!("case passes");
        }
        rep.coverage = json!({"evaluations": 1, "distinct_nontrivial": 0, "rule": "replay", "samples": [c]});
        let _ = fs::remove_dir_all(&base);
        return rep;
    }
    let names = all_names(args.tier.pick(4, 5));
    // tasks in fixed order: layout-major, then name; each task runs the layout's entry points
    let tasks: Vec<(usize, usize)> = (0..LAYOUTS.len()).flat_map(|l| (0..names.len()).map(move |n| (l, n))).collect();
    let nchunks = rayon::current_num_threads().max(1) * 4;
    let per = ((tasks.len() + nchunks - 1) / nchunks).max(1);
    // op indices per layout; case number = offset(layout) + name index * ops(layout) + position
    let ops_of: Vec<Vec<usize>> = LAYOUTS
        .iter()
        .map(|l| (0..ops.len()).filter(|&i| *l == "populated" || CREATING.contains(&ops[i].as_str())).collect())
        .collect();
    let offset: Vec<usize> = (0..LAYOUTS.len()).map(|l| (0..l).map(|x| names.len() * ops_of[x].len()).sum()).collect();
    let evaluations: usize = (0..LAYOUTS.len()).map(|l| names.len() * ops_of[l].len()).sum();
    // (case number, layout, name index, op index, failure)
    let mut fails: Vec<(usize, usize, usize, usize, Fail)> = tasks
        .par_chunks(per)
        .enumerate()
        .flat_map(|(k, chunk)| {
            let mut j = Jail::new(base.join(format!("w{}", k)), chunk[0].0);
            let mut out = vec![];
            for &(l, ni) in chunk {
                j.set_layout(l);
                for (pos, &oi) in ops_of[l].iter().enumerate() {
                    let case_no = offset[l] + ni * ops_of[l].len() + pos;
                    for f in eval(&mut j, &names[ni], &ops[oi], false) {
                        out.push((case_no, l, ni, oi, f));
                    }
                }
            }
            let _ = fs::remove_dir_all(&j.top);
            out
        })
        .collect();
    fails.sort_by_key(|f| f.0);
    // per signature: the first failing case, plus the first observed effect / outside read as evidence
    let mut per_sig: BTreeMap<String, Vec<&(usize, usize, usize, usize, Fail)>> = BTreeMap::new();
    for f in &fails {
        per_sig.entry(f.4.sig.clone()).or_default().push(f);
    }
    let mut per_class = BTreeMap::new();
    for (sig, list) in &per_sig {
        per_class.insert(sig.clone(), list.len());
        let first = list[0];
        let case = |f: &(usize, usize, usize, usize, Fail)| json!({"layout": LAYOUTS[f.1], "op": ops[f.3], "name": names[f.2].json()});
        let mut detail = format!("{} (case #{}; {} failing cases in this class)", first.4.detail, first.0, list.len());
        let mut also = vec![];
        for kind in ["observed", "read-outside"] {
            if let Some(e) = list.iter().find(|f| f.4.kind == kind && f.0 != first.0) {
                detail.push_str(&format!("\n{}: {}", kind, e.4.detail));
                also.push(case(e));
            }
        }
        let mut replay = case(first);
        replay["also"] = json!(also);
        rep.violations.push(Violation { clause: first.4.kind.to_string(), signature: sig.clone(), detail, replay });
    }
    // coverage: a name is non-trivial when simply appending it to the root would leave the root,
    // or when it is itself an absolute path naming the root or its sibling
    let fake_root = "/w/l1/l2/l3/l4/jail/root";
    let fake_res = resolve(fake_root).unwrap();
    let nontrivial_names = names
        .iter()
        .filter(|n| {
            let naive = format!("{}/{}", fake_root, n.concrete(fake_root));
            !under(&resolve(&naive), &fake_res) || matches!(COMPS[n.comps[0] as usize], "R" | "X")
        })
        .count();
    let by_class: BTreeMap<String, usize> = names.iter().fold(BTreeMap::new(), |mut m, n| {
        *m.entry(n.class()).or_default() += 1;
        m
    });
    let count_kind = |k: &str| fails.iter().filter(|f| f.4.kind == k).count();
    rep.coverage = json!({
        "evaluations": evaluations,
        "distinct_nontrivial": nontrivial_names * (ops_of[0].len() + ops_of[1].len()),
        "rule": "a case (layout, name, entry point) is non-trivial when the name, naively appended to the root and resolved, lies outside the root (it contains an escape that normalisation must defuse) or when its first component is the absolute path of the root or of its sibling",
        "exhaustive": true,
        "names": names.len(), "nontrivial_names": nontrivial_names, "names_by_class": by_class,
        "max_components": args.tier.pick(4, 5), "entry_points": ops, "layouts": LAYOUTS, "entry_points_in_bare_layout": CREATING,
        "lexical_failures": count_kind("lexical"), "observed_changes_outside_root": count_kind("observed"),
        "reads_outside_root": count_kind("read-outside"), "panics": count_kind("panic"),
        "failing_cases_per_class": per_class,
        "samples": [
            json!({"name": names[4].symbolic(), "op": ops[1]}),
            json!({"name": names[names.len() / 3].symbolic(), "op": ops[10]}),
            json!({"name": names[names.len() / 2 + 7].symbolic(), "op": ops[17]}),
            json!({"name": names[names.len() - 20].symbolic(), "op": ops[26]}),
        ],
    });
    rep.assumptions = vec![
        "no symbolic links inside the root or on the path to it (lexical resolution equals what the kernel does)".into(),
        "component `a` stands for any ordinary name; names of more than N components add no new way to combine `..`, `.`, empty components and the root path".into(),
        "two-name operations are exercised with one enumerated and one fixed in-root name (the two names are resolved independently by get_native_path)".into(),
        "operations whose native path would leave the sandbox world are judged by the lexical oracle only and not executed".into(),
    ];
    let _ = fs::remove_dir_all(&base);
    rep
}
