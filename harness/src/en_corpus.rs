//! Value generators shared by the codec checks.
//!
//! * `groups(tier)`  — the C05 product grids.  A `Group` is a named mixed-radix grid
//!   (`dims`) plus a pure function from grid coordinates to a well-formed value (`make`);
//!   coordinates that would describe a value the wire format cannot carry (e.g. a 2^32 offset
//!   under the small-file flag, a fault location together with `NoError`) yield `None` and are
//!   counted as skipped, never checked.  Case number `i` of a group is `unrank(dims, i)`,
//!   last dimension fastest, so replay files stay valid as long as the grid is unchanged.
//! * `shape_corpus()` — one representative PDU per payload shape x file-size flag x CRC flag,
//!   used by C06 (mutation) and C15 (bit errors).
use crate::common::Tier;
use camino::Utf8PathBuf;
use cfdp_core::{
    daemon::Report,
    filestore::ChecksumType,
    pdu::*,
    transaction::{TransactionID, TransactionState},
};
use std::sync::Arc;

pub type Coords = [usize; 16];

pub fn unrank(dims: &[usize], mut idx: u64) -> Coords {
    let mut c = [0usize; 16];
    for k in (0..dims.len()).rev() {
        c[k] = (idx % dims[k] as u64) as usize;
        idx /= dims[k] as u64;
    }
    c
}

/// everything C05 knows how to round-trip
#[derive(Clone, Debug)]
pub enum Val {
    Header(PDUHeader),
    /// an `Operations` or `FileDataPDU` value with the flags it is coded under
    Payload(PDUPayload, FileSizeFlag, SegmentedData),
    Pdu(PDU),
    Tlv(MetadataTLV),
    Id(VariableID),
    UserOp(UserOperation),
    /// byte image of a user operation whose type has private fields (decode-first)
    UserOpBytes(Vec<u8>),
    Report(Report),
}

pub struct Group {
    pub name: String,
    pub dims: Vec<usize>,
    pub make: Arc<dyn Fn(&Coords) -> Option<Val> + Send + Sync>,
}
impl Group {
    fn new(name: &str, dims: &[usize], make: impl Fn(&Coords) -> Option<Val> + Send + Sync + 'static) -> Group {
        assert!(dims.len() <= 16);
        Group { name: name.to_string(), dims: dims.to_vec(), make: Arc::new(make) }
    }
    pub fn size(&self) -> u64 {
        self.dims.iter().map(|&d| d as u64).product()
    }
}

// ---------------------------------------------------------------- discrete alphabets (complete)
pub const WIDTHS: [u8; 4] = [1, 2, 4, 8];
pub const CONDS: [Condition; 14] = [
    Condition::NoError,
    Condition::PositiveLimitReached,
    Condition::KeepAliveLimitReached,
    Condition::InvalidTransmissionMode,
    Condition::FileStoreRejection,
    Condition::FileChecksumFailure,
    Condition::FilesizeError,
    Condition::NakLimitReached,
    Condition::InactivityDetected,
    Condition::InvalidFileStructure,
    Condition::CheckLimitReached,
    Condition::UnsupportedChecksumType,
    Condition::SuspendReceived,
    Condition::CancelReceived,
];
pub const DELIV: [DeliveryCode; 2] = [DeliveryCode::Complete, DeliveryCode::Incomplete];
pub const FSTAT: [FileStatusCode; 4] =
    [FileStatusCode::Discarded, FileStatusCode::FileStoreRejection, FileStatusCode::Retained, FileStatusCode::Unreported];
pub const TSTAT: [TransactionStatus; 4] =
    [TransactionStatus::Undefined, TransactionStatus::Active, TransactionStatus::Terminated, TransactionStatus::Unrecognized];
pub const FSS: [FileSizeFlag; 2] = [FileSizeFlag::Small, FileSizeFlag::Large];
pub const CRC: [CRCFlag; 2] = [CRCFlag::NotPresent, CRCFlag::Present];
pub const TMODE: [TransmissionMode; 2] = [TransmissionMode::Acknowledged, TransmissionMode::Unacknowledged];
pub const SEGCTL: [SegmentationControl; 2] = [SegmentationControl::NotPreserved, SegmentationControl::Preserved];
pub const SEGMETA: [SegmentedData; 2] = [SegmentedData::NotPresent, SegmentedData::Present];
pub const CKSUM: [ChecksumType; 2] = [ChecksumType::Modular, ChecksumType::Null];
pub const TSTATE: [TransactionState; 3] = [TransactionState::Active, TransactionState::Suspended, TransactionState::Terminated];
pub fn version(i: usize) -> U3 {
    [U3::Zero, U3::One, U3::Two, U3::Three, U3::Four, U3::Five, U3::Six, U3::Seven][i].clone()
}
pub fn pdu_type(i: usize) -> PDUType {
    [PDUType::FileDirective, PDUType::FileData][i].clone()
}
pub fn direction(i: usize) -> Direction {
    [Direction::ToReceiver, Direction::ToSender][i].clone()
}
pub fn handler(i: usize) -> HandlerCode {
    [HandlerCode::NoticeOfCancellation, HandlerCode::NoticeOfSuspension, HandlerCode::IgnoreError, HandlerCode::AbandonTransaction][i]
        .clone()
}
pub fn action(i: usize) -> FileStoreAction {
    use FileStoreAction::*;
    [CreateFile, DeleteFile, RenameFile, AppendFile, ReplaceFile, CreateDirectory, RemoveDirectory, DenyFile, DenyDirectory][i].clone()
}
pub fn rcs(i: usize) -> RecordContinuationState {
    use RecordContinuationState::*;
    [Interim, First, Last, Unsegmented][i].clone()
}
/// every (action, status) pair the enums define — written out, not derived from the decoder
pub fn fs_statuses() -> Vec<FileStoreStatus> {
    use FileStoreStatus as S;
    let mut v = vec![];
    for s in [CreateFileStatus::Successful, CreateFileStatus::NotAllowed, CreateFileStatus::NotPerformed] {
        v.push(S::CreateFile(s));
    }
    for s in [DeleteFileStatus::Successful, DeleteFileStatus::FileDoesNotExist, DeleteFileStatus::DeleteNotAllowed, DeleteFileStatus::NotPerformed] {
        v.push(S::DeleteFile(s));
    }
    for s in [
        RenameStatus::Successful,
        RenameStatus::OldFilenameDoesNotExist,
        RenameStatus::NewFilenameAlreadyExists,
        RenameStatus::RenameNotAllowed,
        RenameStatus::NotPerformed,
    ] {
        v.push(S::RenameFile(s));
    }
    for s in [
        AppendStatus::Successful,
        AppendStatus::Filename1DoesNotExist,
        AppendStatus::Filename2DoesNotExist,
        AppendStatus::NotAllowed,
        AppendStatus::NotPerformed,
    ] {
        v.push(S::AppendFile(s));
    }
    for s in [
        ReplaceStatus::Successful,
        ReplaceStatus::Filename1DoesNotExist,
        ReplaceStatus::Filename2DoesNotExist,
        ReplaceStatus::NotAllowed,
        ReplaceStatus::NotPerformed,
    ] {
        v.push(S::ReplaceFile(s));
    }
    for s in [CreateDirectoryStatus::Successful, CreateDirectoryStatus::DirectoryCannotBeCreated, CreateDirectoryStatus::NotPerformed] {
        v.push(S::CreateDirectory(s));
    }
    for s in [
        RemoveDirectoryStatus::Successful,
        RemoveDirectoryStatus::DirectoryDoesNotExist,
        RemoveDirectoryStatus::DeleteNotAllowed,
        RemoveDirectoryStatus::NotPerformed,
    ] {
        v.push(S::RemoveDirectory(s));
    }
    for s in [DenyStatus::Successful, DenyStatus::NotAllowed, DenyStatus::NotPerformed] {
        v.push(S::DenyFile(s));
    }
    for s in [DenyStatus::Successful, DenyStatus::NotAllowed, DenyStatus::NotPerformed] {
        v.push(S::DenyDirectory(s));
    }
    v
}
pub const N_FS_STATUS: usize = 35;

// ---------------------------------------------------------------- boundary sets
/// identifier of `width` bytes with value 0, 1 or all-ones
pub fn vid(width: u8, which: usize) -> VariableID {
    match width {
        1 => VariableID::U8([0, 1, u8::MAX][which]),
        2 => VariableID::U16([0, 1, u16::MAX][which]),
        4 => VariableID::U32([0, 1, u32::MAX][which]),
        _ => VariableID::U64([0, 1, u64::MAX][which]),
    }
}
/// k in 0..12 -> (width, value)
pub fn vid12(k: usize) -> VariableID {
    vid(WIDTHS[k / 3], k % 3)
}
/// file sizes / offsets: 3 values fit the small encoding, 5 the large one
pub fn size_of(fss: FileSizeFlag, i: usize) -> Option<u64> {
    let v = [0, 1, u32::MAX as u64, 1u64 << 32, u64::MAX][i];
    match fss {
        FileSizeFlag::Small if i >= 3 => None,
        _ => Some(v),
    }
}
pub const LENS: [usize; 4] = [0, 1, 254, 255];
/// (first, second) name lengths when both sit in one TLV body with the action octet (<= 255)
pub const PAIRS: [(usize, usize); 9] = [(0, 0), (1, 0), (0, 1), (1, 1), (252, 0), (0, 252), (126, 126), (251, 1), (1, 251)];
/// (first, second, message) lengths of a filestore response inside one TLV body (<= 255)
pub const TRIPLES: [(usize, usize, usize); 10] =
    [(0, 0, 0), (1, 0, 0), (0, 1, 0), (0, 0, 1), (1, 1, 1), (251, 0, 0), (0, 251, 0), (0, 0, 251), (83, 84, 84), (249, 1, 1)];

/// text of exactly `len` bytes: ASCII path-like (alpha 0) or built from a 2-byte letter (alpha 1)
pub fn text(len: usize, alpha: usize) -> Utf8PathBuf {
    let mut s = String::with_capacity(len);
    if alpha == 0 {
        const CYC: &[u8] = b"ab/cd_ef.gh-ij";
        for i in 0..len {
            s.push(CYC[i % CYC.len()] as char);
        }
    } else {
        if len % 2 == 1 {
            s.push('x');
        }
        while s.len() < len {
            s.push('\u{e9}');
        }
    }
    debug_assert_eq!(s.len(), len);
    Utf8PathBuf::from(s)
}
pub fn blob(len: usize, seed: u8) -> Vec<u8> {
    (0..len).map(|i| (i as u8).wrapping_mul(7).wrapping_add(seed)).collect()
}

// ---------------------------------------------------------------- headers
#[derive(Clone, Copy)]
pub struct Hv {
    pub crc: CRCFlag,
    pub idw: u8,
    pub seqw: u8,
    pub misc: usize,
}
/// header variants a payload is wrapped in for the whole-PDU groups
pub fn header_variants(tier: Tier) -> Vec<Hv> {
    let mut v = vec![];
    for crc in CRC {
        match tier {
            Tier::Thorough => {
                for idw in WIDTHS {
                    for seqw in WIDTHS {
                        for misc in 0..2 {
                            v.push(Hv { crc, idw, seqw, misc });
                        }
                    }
                }
            }
            Tier::Quick => {
                for (k, (idw, seqw)) in [(1, 8), (2, 4), (4, 2), (8, 1)].into_iter().enumerate() {
                    v.push(Hv { crc, idw, seqw, misc: k % 2 });
                }
            }
        }
    }
    v
}
pub fn wrap(payload: PDUPayload, fss: FileSizeFlag, seg: SegmentedData, hv: Hv) -> Option<PDU> {
    let len = payload.encoded_len(fss);
    // the length field counts the CRC: a data field above 65533 cannot be sent with a CRC
    if hv.crc == CRCFlag::Present && len > u16::MAX - 2 {
        return None;
    }
    let is_data = matches!(payload, PDUPayload::FileData(_));
    Some(PDU {
        header: PDUHeader {
            version: if hv.misc == 0 { U3::One } else { U3::Seven },
            pdu_type: pdu_type(is_data as usize),
            direction: direction(hv.misc),
            transmission_mode: TMODE[hv.misc],
            crc_flag: hv.crc,
            large_file_flag: fss,
            pdu_data_field_length: len,
            segmentation_control: SEGCTL[hv.misc],
            segment_metadata_flag: seg,
            source_entity_id: vid(hv.idw, 1),
            transaction_sequence_number: vid(hv.seqw, 2),
            destination_entity_id: vid(hv.idw, 2),
        },
        payload,
    })
}

// ---------------------------------------------------------------- payload grids
fn fault_loc(cond: Condition, k: usize) -> Option<Option<VariableID>> {
    // k = 0: absent, 1..=12: present.  Well-formed: present iff an error condition.
    match (cond == Condition::NoError, k) {
        (true, 0) => Some(None),
        (false, k) if k > 0 => Some(Some(vid12(k - 1))),
        _ => None,
    }
}
fn fs_response(status: FileStoreStatus, t: (usize, usize, usize), alpha: usize) -> FileStoreResponse {
    FileStoreResponse {
        action_and_status: status,
        first_filename: text(t.0, alpha),
        second_filename: text(t.1, alpha),
        filestore_message: blob(t.2, 0x30),
    }
}
fn response_menu(i: usize) -> FileStoreResponse {
    let st = fs_statuses();
    match i {
        0 => fs_response(st[0], (1, 0, 0), 0),
        1 => fs_response(st[11], (251, 0, 0), 0),
        2 => fs_response(st[14], (83, 84, 84), 1),
        3 => fs_response(st[33], (0, 0, 251), 0),
        _ => fs_response(st[27], (1, 1, 1), 1),
    }
}
/// index 0: none, 1..=5 one response, 6..=30 two responses
fn response_list(i: usize) -> Vec<FileStoreResponse> {
    match i {
        0 => vec![],
        1..=5 => vec![response_menu(i - 1)],
        _ => vec![response_menu((i - 6) / 5), response_menu((i - 6) % 5)],
    }
}
/// one value per TLV kind; `variant` varies the content with the position in the option list
fn tlv_of(kind: usize, variant: usize) -> MetadataTLV {
    match kind {
        0 => MetadataTLV::FileStoreRequest(FileStoreRequest {
            action_code: action([2, 0, 8][variant % 3]),
            first_filename: text([255, 1, 7][variant % 3], variant % 2),
            second_filename: text([254, 0, 9][variant % 3], 0),
        }),
        1 => MetadataTLV::FileStoreResponse(fs_response(fs_statuses()[[12, 0, 34][variant % 3]], [(255, 255, 255), (0, 0, 0), (3, 4, 5)][variant % 3], variant % 2)),
        2 => MetadataTLV::MessageToUser(match variant % 3 {
            0 => MessageToUser::from(UserOperation::Request(UserRequest::RemoteSuspend(RemoteSuspendRequest {
                source_entity_id: vid(2, 2),
                transaction_sequence_number: vid(4, 1),
            }))),
            1 => MessageToUser { message_text: vec![] },
            _ => MessageToUser { message_text: blob(255, 1) },
        }),
        3 => MetadataTLV::FaultHandlerOverride(FaultHandlerOverride { fault_handler_code: handler(variant % 4) }),
        4 => MetadataTLV::FlowLabel(FlowLabel { value: blob([3, 0, 255][variant % 3], 9) }),
        _ => MetadataTLV::EntityID(vid12([10, 0, 5][variant % 3])),
    }
}
/// all sequences over the 6 TLV kinds of length <= max_len, shortest first, then lexicographic
fn tlv_sequences(max_len: usize) -> Vec<Vec<usize>> {
    let mut out: Vec<Vec<usize>> = vec![vec![]];
    let mut layer: Vec<Vec<usize>> = vec![vec![]];
    for _ in 0..max_len {
        let mut next = vec![];
        for s in &layer {
            for k in 0..6 {
                let mut t = s.clone();
                t.push(k);
                next.push(t);
            }
        }
        out.extend(next.iter().cloned());
        layer = next;
    }
    out
}
/// largest NAK list whose data field still fits with a CRC (65533 bytes)
pub fn nak_max(fss: FileSizeFlag) -> usize {
    let f = fss.encoded_len() as usize;
    (65533 - 1 - 2 * f) / (2 * f)
}

struct PGroup {
    name: &'static str,
    dims: Vec<usize>,
    make: Arc<dyn Fn(&Coords) -> Option<(PDUPayload, FileSizeFlag, SegmentedData)> + Send + Sync>,
}
fn pg(
    name: &'static str,
    dims: &[usize],
    f: impl Fn(&Coords) -> Option<(PDUPayload, FileSizeFlag, SegmentedData)> + Send + Sync + 'static,
) -> PGroup {
    PGroup { name, dims: dims.to_vec(), make: Arc::new(f) }
}
fn dir(op: Operations, fss: FileSizeFlag) -> Option<(PDUPayload, FileSizeFlag, SegmentedData)> {
    Some((PDUPayload::Directive(op), fss, SegmentedData::NotPresent))
}

fn payload_groups(tier: Tier) -> Vec<PGroup> {
    let seqs = Arc::new(tlv_sequences(tier.pick(2, 3)));
    let nseq = seqs.len();
    vec![
        // [fss, condition, checksum, file size, fault location]
        pg("eof", &[2, 14, 3, 5, 13], |c| {
            let fss = FSS[c[0]];
            dir(
                Operations::EoF(EndOfFile {
                    condition: CONDS[c[1]],
                    checksum: [0, 1, u32::MAX][c[2]],
                    file_size: size_of(fss, c[3])?,
                    fault_location: fault_loc(CONDS[c[1]], c[4])?,
                }),
                fss,
            )
        }),
        // [fss, condition, delivery, file status, response list, fault location]
        pg("finished", &[2, 14, 2, 4, 31, 13], |c| {
            dir(
                Operations::Finished(Finished {
                    condition: CONDS[c[1]],
                    delivery_code: DELIV[c[2]],
                    file_status: FSTAT[c[3]],
                    filestore_response: response_list(c[4]),
                    fault_location: fault_loc(CONDS[c[1]], c[5])?,
                }),
                FSS[c[0]],
            )
        }),
        // [fss, acknowledged directive (the two legal directive/subtype pairs), condition, status]
        pg("ack", &[2, 2, 14, 4], |c| {
            dir(
                Operations::Ack(PositiveAcknowledgePDU {
                    directive: [PDUDirective::EoF, PDUDirective::Finished][c[1]].clone(),
                    directive_subtype_code: [ACKSubDirective::Other, ACKSubDirective::Finished][c[1]].clone(),
                    condition: CONDS[c[2]],
                    transaction_status: TSTAT[c[3]],
                }),
                FSS[c[0]],
            )
        }),
        // [fss, closure, checksum type, file size, source len, destination len, alphabet, option sequence]
        pg("metadata", &[2, 2, 2, 5, 4, 4, 2, nseq], move |c| {
            let fss = FSS[c[0]];
            dir(
                Operations::Metadata(MetadataPDU {
                    closure_requested: c[1] == 1,
                    checksum_type: CKSUM[c[2]],
                    file_size: size_of(fss, c[3])?,
                    source_filename: text(LENS[c[4]], c[6]),
                    destination_filename: text(LENS[c[5]], 1 - c[6]),
                    options: seqs[c[7]].iter().enumerate().map(|(pos, &k)| tlv_of(k, pos)).collect(),
                }),
                fss,
            )
        }),
        // [fss, scope start, scope end, list length {0,1,2,max}, range pattern]
        pg("nak", &[2, 5, 5, 4, 3], |c| {
            let fss = FSS[c[0]];
            let n = [0, 1, 2, nak_max(fss)][c[3]];
            let top = if fss == FileSizeFlag::Small { u32::MAX as u64 } else { u64::MAX };
            let segment_requests = (0..n as u64)
                .map(|i| match c[4] {
                    0 => SegmentRequestForm { start_offset: 0, end_offset: 0 },
                    1 => SegmentRequestForm { start_offset: i * 1021, end_offset: i * 1021 + 1 },
                    _ => SegmentRequestForm { start_offset: if i % 2 == 0 { top } else { 0 }, end_offset: top - i },
                })
                .collect();
            dir(
                Operations::Nak(NegativeAcknowledgmentPDU {
                    start_of_scope: size_of(fss, c[1])?,
                    end_of_scope: size_of(fss, c[2])?,
                    segment_requests,
                }),
                fss,
            )
        }),
        pg("prompt", &[2, 2], |c| {
            dir(Operations::Prompt(PromptPDU { nak_or_keep_alive: [NakOrKeepAlive::Nak, NakOrKeepAlive::KeepAlive][c[1]] }), FSS[c[0]])
        }),
        pg("keepalive", &[2, 5], |c| dir(Operations::KeepAlive(KeepAlivePDU { progress: size_of(FSS[c[0]], c[1])? }), FSS[c[0]])),
        // [fss, offset, data length {0,1,255,256, max with CRC, max without}]
        pg("filedata-unsegmented", &[2, 5, 6], |c| {
            let fss = FSS[c[0]];
            let f = fss.encoded_len() as usize;
            let n = [0, 1, 255, 256, 65533 - f, 65535 - f][c[2]];
            Some((
                PDUPayload::FileData(FileDataPDU::Unsegmented(UnsegmentedFileData { offset: size_of(fss, c[1])?, file_data: blob(n, 3) })),
                fss,
                SegmentedData::NotPresent,
            ))
        }),
        // [fss, continuation state, metadata length {0,1,63}, offset, data length {0,1,300,max}]
        pg("filedata-segmented", &[2, 4, 3, 5, 4], |c| {
            let fss = FSS[c[0]];
            let m = [0, 1, 63][c[2]];
            let n = [0, 1, 300, 65535 - 1 - m - fss.encoded_len() as usize][c[4]];
            Some((
                PDUPayload::FileData(FileDataPDU::Segmented(SegmentedFileData {
                    record_continuation_state: rcs(c[1]),
                    segment_metadata: blob(m, 0x51),
                    offset: size_of(fss, c[3])?,
                    file_data: blob(n, 5),
                })),
                fss,
                SegmentedData::Present,
            ))
        }),
    ]
}

// ---------------------------------------------------------------- user operations
fn uo(name: &str, dims: &[usize], f: impl Fn(&Coords) -> Option<UserOperation> + Send + Sync + 'static) -> Group {
    Group::new(&format!("userop/{}", name), dims, move |c| f(c).map(Val::UserOp))
}
fn lv(mut out: Vec<u8>, body: &[u8]) -> Vec<u8> {
    out.push(body.len() as u8);
    out.extend_from_slice(body);
    out
}
fn fs_request(a: usize, p: (usize, usize), alpha: usize) -> FileStoreRequest {
    FileStoreRequest { action_code: action(a), first_filename: text(p.0, alpha), second_filename: text(p.1, alpha) }
}
/// [source width, source value, sequence width, sequence value]
const IDS: [usize; 4] = [4, 3, 4, 3];
fn ids(c: &[usize]) -> (VariableID, VariableID) {
    (vid(WIDTHS[c[0]], c[1]), vid(WIDTHS[c[2]], c[3]))
}

fn userop_groups(tier: Tier) -> Vec<Group> {
    use ProxyOperation as P;
    use UserOperation as U;
    use UserRequest as Q;
    use UserResponse as R;
    let cat = |a: &[usize], b: &[usize]| [a, b].concat();
    vec![
        uo("OriginatingTransactionIDMessage", &IDS, |c| {
            let (s, t) = ids(&c[0..4]);
            Some(U::OriginatingTransactionIDMessage(OriginatingTransactionIDMessage { source_entity_id: s, transaction_sequence_number: t }))
        }),
        uo("ProxyPutRequest", &[4, 3, 4, 4, 2], |c| {
            Some(U::ProxyOperation(P::ProxyPutRequest(ProxyPutRequest {
                destination_entity_id: vid(WIDTHS[c[0]], c[1]),
                source_filename: text(LENS[c[2]], c[4]),
                destination_filename: text(LENS[c[3]], c[4]),
            })))
        }),
        uo("ProxyMessageToUser", &[4], |c| Some(U::ProxyOperation(P::ProxyMessageToUser(MessageToUser { message_text: blob(LENS[c[0]], 2) })))),
        uo("ProxyFileStoreRequest", &[9, 9, 2], |c| Some(U::ProxyOperation(P::ProxyFileStoreRequest(fs_request(c[0], PAIRS[c[1]], c[2]))))),
        uo("ProxyFaultHandlerOverride", &[4], |c| {
            Some(U::ProxyOperation(P::ProxyFaultHandlerOverride(FaultHandlerOverride { fault_handler_code: handler(c[0]) })))
        }),
        uo("ProxyTransmissionMode", &[2], |c| Some(U::ProxyOperation(P::ProxyTransmissionMode(TMODE[c[0]])))),
        uo("ProxyFlowLabel", &[4], |c| Some(U::ProxyOperation(P::ProxyFlowLabel(FlowLabel { value: blob(LENS[c[0]], 4) })))),
        // private field: all 256 one-byte bodies, the decoder picks the well-formed ones
        Group::new("userop/ProxySegmentationControl", &[256], |c| Some(Val::UserOpBytes([b"cfdp".as_slice(), &[0x06, c[0] as u8]].concat()))),
        uo("ProxyPutCancel", &[1], |_| Some(U::ProxyOperation(P::ProxyPutCancel))),
        uo("ProxyPutResponse", &[14, 2, 4], |c| {
            Some(U::Response(R::ProxyPut(ProxyPutResponse { condition: CONDS[c[0]], delivery_code: DELIV[c[1]], file_status: FSTAT[c[2]] })))
        }),
        uo("ProxyFileStoreResponse", &[N_FS_STATUS, 10, 2], |c| {
            Some(U::Response(R::ProxyFileStore(fs_response(fs_statuses()[c[0]], TRIPLES[c[1]], c[2]))))
        }),
        uo("DirectoryListingResponse", &[2, 4, 4, 2], |c| {
            Some(U::Response(R::DirectoryListing(DirectoryListingResponse {
                response_code: [ListingResponseCode::Successful, ListingResponseCode::Unsuccessful][c[0]].clone(),
                directory_name: text(LENS[c[1]], c[3]),
                directory_filename: text(LENS[c[2]], c[3]),
            })))
        }),
        uo("RemoteStatusReportResponse", &cat(&[4, 2], &IDS), |c| {
            let (s, t) = ids(&c[2..6]);
            Some(U::Response(R::RemoteStatusReport(RemoteStatusReportResponse {
                transaction_status: TSTAT[c[0]],
                response_code: c[1] == 1,
                source_entity_id: s,
                transaction_sequence_number: t,
            })))
        }),
        uo("RemoteSuspendResponse", &cat(&[2, 4], &IDS), |c| {
            let (s, t) = ids(&c[2..6]);
            Some(U::Response(R::RemoteSuspend(RemoteSuspendResponse {
                suspend_indication: c[0] == 1,
                transaction_status: TSTAT[c[1]],
                source_entity_id: s,
                transaction_sequence_number: t,
            })))
        }),
        uo("RemoteResumeResponse", &cat(&[2, 4], &IDS), |c| {
            let (s, t) = ids(&c[2..6]);
            Some(U::Response(R::RemoteResume(RemoteResumeResponse {
                suspend_indication: c[0] == 1,
                transaction_status: TSTAT[c[1]],
                source_entity_id: s,
                transaction_sequence_number: t,
            })))
        }),
        uo("DirectoryListingRequest", &[4, 4, 2], |c| {
            Some(U::Request(Q::DirectoryListing(DirectoryListingRequest {
                directory_name: text(LENS[c[0]], c[2]),
                directory_filename: text(LENS[c[1]], c[2]),
            })))
        }),
        uo("RemoteStatusReportRequest", &cat(&IDS, &[4, 2]), |c| {
            let (s, t) = ids(&c[0..4]);
            Some(U::Request(Q::RemoteStatusReport(RemoteStatusReportRequest {
                source_entity_id: s,
                transaction_sequence_number: t,
                report_filename: text(LENS[c[4]], c[5]),
            })))
        }),
        uo("RemoteSuspendRequest", &IDS, |c| {
            let (s, t) = ids(&c[0..4]);
            Some(U::Request(Q::RemoteSuspend(RemoteSuspendRequest { source_entity_id: s, transaction_sequence_number: t })))
        }),
        uo("RemoteResumeRequest", &IDS, |c| {
            let (s, t) = ids(&c[0..4]);
            Some(U::Request(Q::RemoteResume(RemoteResumeRequest { source_entity_id: s, transaction_sequence_number: t })))
        }),
        // private fields: byte images.  [flags octet (trace x mode x segmentation x closure), prior
        // waypoints, label length, source id, destination id, source name, destination name]
        Group::new("userop/SFORequest", &[32, 3, 4, 12, 12, 4, 4], |c| {
            let mut b = b"cfdp".to_vec();
            b.push(0x40);
            b.push((c[0] as u8) << 3);
            b.push([0, 1, 255][c[1]]);
            b = lv(b, &blob(LENS[c[2]], 6));
            b = lv(b, &vid12(c[3]).to_be_bytes());
            b = lv(b, &vid12(c[4]).to_be_bytes());
            b = lv(b, text(LENS[c[5]], 0).as_str().as_bytes());
            b = lv(b, text(LENS[c[6]], 1).as_str().as_bytes());
            Some(Val::UserOpBytes(b))
        }),
        uo("SFOMessageToUser", &[4], |c| Some(U::SFOMessageToUser(MessageToUser { message_text: blob(LENS[c[0]], 2) }))),
        uo("SFOFlowLabel", &[4], |c| Some(U::SFOFlowLabel(FlowLabel { value: blob(LENS[c[0]], 4) }))),
        uo("SFOFaultHandlerOverride", &[4], |c| Some(U::SFOFaultHandlerOverride(FaultHandlerOverride { fault_handler_code: handler(c[0]) }))),
        uo("SFOFileStoreRequest", &[9, 9, 2], |c| Some(U::SFOFileStoreRequest(fs_request(c[0], PAIRS[c[1]], c[2])))),
        uo("SFOFileStoreResponse", &[N_FS_STATUS, 10, 2], |c| Some(U::SFOFileStoreResponse(fs_response(fs_statuses()[c[0]], TRIPLES[c[1]], c[2])))),
        // [label length, source id, destination id, reporting id, prior waypoints, report code,
        //  condition, direction, delivery, file status]
        Group::new("userop/SFOReport", &[4, 12, 12, 12, 3, tier.pick(1, 3), 14, 2, 2, 4], |c| {
            let mut b = b"cfdp".to_vec();
            b.push(0x45);
            b = lv(b, &blob(LENS[c[0]], 8));
            b = lv(b, &vid12(c[1]).to_be_bytes());
            b = lv(b, &vid12(c[2]).to_be_bytes());
            b = lv(b, &vid12(c[3]).to_be_bytes());
            b.push([0, 1, 255][c[4]]);
            b.push([255, 0, 1][c[5]]);
            b.push(((CONDS[c[6]] as u8) << 4) | ((c[7] as u8) << 3) | ((c[8] as u8) << 2) | c[9] as u8);
            Some(Val::UserOpBytes(b))
        }),
    ]
}

// ---------------------------------------------------------------- the C05 grid
pub fn groups(tier: Tier) -> Vec<Group> {
    let mut g = vec![
        // every header flag x id widths x id values x data-field length
        // [version, type, direction, mode, crc, large, segmentation control, segment metadata,
        //  entity id width, sequence width, source value, sequence value, destination value, length]
        Group::new("header", &[8, 2, 2, 2, 2, 2, 2, 2, 4, 4, 3, 3, 3, 5], |c| {
            let crc = CRC[c[4]];
            Some(Val::Header(PDUHeader {
                version: version(c[0]),
                pdu_type: pdu_type(c[1]),
                direction: direction(c[2]),
                transmission_mode: TMODE[c[3]],
                crc_flag: crc,
                large_file_flag: FSS[c[5]],
                pdu_data_field_length: [0, 1, 255, 256, if crc == CRCFlag::Present { 65533 } else { 65535 }][c[13]],
                segmentation_control: SEGCTL[c[6]],
                segment_metadata_flag: SEGMETA[c[7]],
                source_entity_id: vid(WIDTHS[c[8]], c[10]),
                transaction_sequence_number: vid(WIDTHS[c[9]], c[11]),
                destination_entity_id: vid(WIDTHS[c[8]], c[12]),
            }))
        }),
        Group::new("variable-id", &[12], |c| Some(Val::Id(vid12(c[0])))),
        Group::new("tlv/FileStoreRequest", &[9, 4, 4, 2], |c| {
            Some(Val::Tlv(MetadataTLV::FileStoreRequest(fs_request(c[0], (LENS[c[1]], LENS[c[2]]), c[3]))))
        }),
        Group::new("tlv/FileStoreResponse", &[N_FS_STATUS, 4, 4, 4, 2], |c| {
            Some(Val::Tlv(MetadataTLV::FileStoreResponse(fs_response(fs_statuses()[c[0]], (LENS[c[1]], LENS[c[2]], LENS[c[3]]), c[4]))))
        }),
        Group::new("tlv/MessageToUser", &[4], |c| Some(Val::Tlv(MetadataTLV::MessageToUser(MessageToUser { message_text: blob(LENS[c[0]], 1) })))),
        Group::new("tlv/FaultHandlerOverride", &[4], |c| {
            Some(Val::Tlv(MetadataTLV::FaultHandlerOverride(FaultHandlerOverride { fault_handler_code: handler(c[0]) })))
        }),
        Group::new("tlv/FlowLabel", &[4], |c| Some(Val::Tlv(MetadataTLV::FlowLabel(FlowLabel { value: blob(LENS[c[0]], 1) })))),
        Group::new("tlv/EntityID", &[12], |c| Some(Val::Tlv(MetadataTLV::EntityID(vid12(c[0]))))),
        // [state, status, condition, ids]
        Group::new("report", &[3, 4, 14, 4, 3, 4, 3], |c| {
            let (s, t) = ids(&c[3..7]);
            Some(Val::Report(Report { id: TransactionID(s, t), state: TSTATE[c[0]], status: TSTAT[c[1]], condition: CONDS[c[2]] }))
        }),
    ];
    g.extend(userop_groups(tier));
    let hvs = Arc::new(header_variants(tier));
    for p in payload_groups(tier) {
        let mk = p.make.clone();
        g.push(Group { name: format!("payload/{}", p.name), dims: p.dims.clone(), make: Arc::new(move |c| mk(c).map(|(p, f, s)| Val::Payload(p, f, s))) });
        // whole PDUs: every payload case under every header variant (last coordinate)
        let (mk, hv, n) = (p.make.clone(), hvs.clone(), p.dims.len());
        let mut dims = p.dims.clone();
        dims.push(hvs.len());
        g.push(Group { name: format!("pdu/{}", p.name), dims, make: Arc::new(move |c| mk(c).and_then(|(p, f, s)| wrap(p, f, s, hv[c[n]])).map(Val::Pdu)) });
    }
    g
}

// ---------------------------------------------------------------- representative corpus (C06, C15)
/// one PDU per payload shape x file-size flag x CRC flag; 20-120 bytes each
pub fn shape_corpus() -> Vec<(String, PDU)> {
    let shapes: Vec<(&str, Box<dyn Fn(FileSizeFlag) -> (PDUPayload, SegmentedData)>)> = vec![
        ("eof-noerror", Box::new(|_| (PDUPayload::Directive(Operations::EoF(EndOfFile { condition: Condition::NoError, checksum: 0x89abcdef, file_size: 0x1234, fault_location: None })), SegmentedData::NotPresent))),
        ("eof-error", Box::new(|_| (PDUPayload::Directive(Operations::EoF(EndOfFile { condition: Condition::FileStoreRejection, checksum: 0x01020304, file_size: 77, fault_location: Some(VariableID::U16(0x0a0b)) })), SegmentedData::NotPresent))),
        ("finished-plain", Box::new(|_| (PDUPayload::Directive(Operations::Finished(Finished { condition: Condition::NoError, delivery_code: DeliveryCode::Complete, file_status: FileStatusCode::Retained, filestore_response: vec![], fault_location: None })), SegmentedData::NotPresent))),
        ("finished-responses", Box::new(|_| (PDUPayload::Directive(Operations::Finished(Finished { condition: Condition::NoError, delivery_code: DeliveryCode::Incomplete, file_status: FileStatusCode::Unreported, filestore_response: vec![fs_response(fs_statuses()[0], (5, 0, 3), 0), fs_response(fs_statuses()[9], (4, 6, 0), 1)], fault_location: None })), SegmentedData::NotPresent))),
        // filestore responses that fill their TLV to the 254/255-octet limit
        ("finished-long-response", Box::new(|_| (PDUPayload::Directive(Operations::Finished(Finished { condition: Condition::NoError, delivery_code: DeliveryCode::Complete, file_status: FileStatusCode::Retained, filestore_response: vec![fs_response(fs_statuses()[0], (250, 0, 0), 0), fs_response(fs_statuses()[9], (100, 151, 0), 0)], fault_location: None })), SegmentedData::NotPresent))),
        ("finished-error", Box::new(|_| (PDUPayload::Directive(Operations::Finished(Finished { condition: Condition::InactivityDetected, delivery_code: DeliveryCode::Incomplete, file_status: FileStatusCode::Discarded, filestore_response: vec![fs_response(fs_statuses()[30], (3, 0, 2), 0)], fault_location: Some(VariableID::U32(7)) })), SegmentedData::NotPresent))),
        ("ack-eof", Box::new(|_| (PDUPayload::Directive(Operations::Ack(PositiveAcknowledgePDU { directive: PDUDirective::EoF, directive_subtype_code: ACKSubDirective::Other, condition: Condition::NoError, transaction_status: TransactionStatus::Active })), SegmentedData::NotPresent))),
        ("ack-finished", Box::new(|_| (PDUPayload::Directive(Operations::Ack(PositiveAcknowledgePDU { directive: PDUDirective::Finished, directive_subtype_code: ACKSubDirective::Finished, condition: Condition::CancelReceived, transaction_status: TransactionStatus::Terminated })), SegmentedData::NotPresent))),
        ("metadata-plain", Box::new(|_| (PDUPayload::Directive(Operations::Metadata(MetadataPDU { closure_requested: true, checksum_type: ChecksumType::Modular, file_size: 1000, source_filename: "a/in.dat".into(), destination_filename: "b/out.dat".into(), options: vec![] })), SegmentedData::NotPresent))),
        // names at the 255-byte limit of an LV field: one mutated byte must not push a value past it
        ("metadata-long-names", Box::new(|_| (PDUPayload::Directive(Operations::Metadata(MetadataPDU { closure_requested: false, checksum_type: ChecksumType::Modular, file_size: 7, source_filename: "s".repeat(255).into(), destination_filename: "d".repeat(254).into(), options: vec![] })), SegmentedData::NotPresent))),
        ("metadata-options", Box::new(|_| (PDUPayload::Directive(Operations::Metadata(MetadataPDU { closure_requested: false, checksum_type: ChecksumType::Null, file_size: 3, source_filename: "s".into(), destination_filename: "".into(), options: vec![
            MetadataTLV::FileStoreRequest(fs_request(2, (3, 4), 0)),
            MetadataTLV::FileStoreResponse(fs_response(fs_statuses()[12], (2, 2, 2), 0)),
            tlv_of(2, 0),
            tlv_of(3, 1),
            MetadataTLV::FlowLabel(FlowLabel { value: vec![1, 2, 3] }),
            MetadataTLV::EntityID(VariableID::U16(513)),
        ] })), SegmentedData::NotPresent))),
        ("nak-empty", Box::new(|_| (PDUPayload::Directive(Operations::Nak(NegativeAcknowledgmentPDU { start_of_scope: 0, end_of_scope: 4096, segment_requests: vec![] })), SegmentedData::NotPresent))),
        ("nak-two", Box::new(|_| (PDUPayload::Directive(Operations::Nak(NegativeAcknowledgmentPDU { start_of_scope: 16, end_of_scope: 0x00ff_ff00, segment_requests: vec![SegmentRequestForm { start_offset: 0, end_offset: 0 }, SegmentRequestForm { start_offset: 1024, end_offset: 2048 }] })), SegmentedData::NotPresent))),
        ("prompt-nak", Box::new(|_| (PDUPayload::Directive(Operations::Prompt(PromptPDU { nak_or_keep_alive: NakOrKeepAlive::Nak })), SegmentedData::NotPresent))),
        ("prompt-keepalive", Box::new(|_| (PDUPayload::Directive(Operations::Prompt(PromptPDU { nak_or_keep_alive: NakOrKeepAlive::KeepAlive })), SegmentedData::NotPresent))),
        ("keepalive", Box::new(|_| (PDUPayload::Directive(Operations::KeepAlive(KeepAlivePDU { progress: 0x00c0_ffee })), SegmentedData::NotPresent))),
        ("filedata-unsegmented", Box::new(|_| (PDUPayload::FileData(FileDataPDU::Unsegmented(UnsegmentedFileData { offset: 4096, file_data: blob(24, 0x41) })), SegmentedData::NotPresent))),
        ("filedata-segmented", Box::new(|_| (PDUPayload::FileData(FileDataPDU::Segmented(SegmentedFileData { record_continuation_state: RecordContinuationState::Last, segment_metadata: blob(5, 0x61), offset: 8, file_data: blob(16, 0x41) })), SegmentedData::Present))),
    ];
    let mut out = vec![];
    for (i, (name, mk)) in shapes.iter().enumerate() {
        for fss in FSS {
            for crc in CRC {
                let (payload, seg) = mk(fss);
                let hv = Hv { crc, idw: WIDTHS[i % 4], seqw: WIDTHS[(i / 4) % 4], misc: i % 2 };
                let mut pdu = wrap(payload, fss, seg, hv).expect("corpus PDUs are small");
                // ids with distinct non-trivial bytes
                pdu.header.source_entity_id = VariableID::try_from(blob(hv.idw as usize, 0x11)).unwrap();
                pdu.header.destination_entity_id = VariableID::try_from(blob(hv.idw as usize, 0x22)).unwrap();
                pdu.header.transaction_sequence_number = VariableID::try_from(blob(hv.seqw as usize, 0x33)).unwrap();
                out.push((format!("{}/{:?}/crc={:?}", name, fss, crc), pdu));
            }
        }
    }
    out
}
