//! C15 — E4 (fault enumeration): with the CRC on, a PDU altered by an error the CRC-16 is built
//! to catch is never accepted as a different PDU.
//!
//! Corpus: `shape_corpus()` restricted to CRC present — one PDU per payload shape (16) x both
//! file-size flags.  For each encoding, over the bits after the 4 fixed header octets (entity
//! ids, sequence number, data field and the CRC itself; bit k is bit 7-(k%8) of octet 4+k/8,
//! i.e. transmission order) the following error patterns are enumerated completely.  The three
//! families are disjoint by construction (by span = last-first+1 and weight), so every pattern
//! is evaluated once:
//!   burst  : span <= 16 (quick: <= 13): first and last bit flipped, all 2^(span-2) interiors,
//!            at every position; span 1 is the single-bit flip, weight-2 bursts are the close
//!            pairs, odd-weight bursts the close odd patterns;
//!   pair   : two flips with span above the burst bound, up to 256 apart (thorough: any distance);
//!   triple : three flips with span above the burst bound and <= 24 (narrower ones are bursts).
//! Oracle: `PDU::decode(corrupted)` is `Err`, or `Ok(p)` with `p == original` (only spare bits
//! changed); never a panic; the unaltered encoding decodes to the original.
use crate::common::*;
use crate::en_alloc::{catch_loc, install_panic_recorder};
use crate::en_codec::{diff_class, panic_class};
use crate::en_corpus::shape_corpus;
use cfdp_core::pdu::*;
use rayon::prelude::*;
use serde_json::{json, Value};
use std::collections::BTreeMap;

const SKIP: usize = 4; // fixed header octets

#[derive(Default, Clone)]
struct Acc {
    evaluated: u64,
    rejected: u64,
    accepted_equal: u64,
    /// per family and per weight class
    by_family: BTreeMap<&'static str, u64>,
    by_weight: BTreeMap<&'static str, u64>,
    /// signature -> ((pdu index, pattern ordinal), violation, occurrences)
    fails: BTreeMap<String, ((usize, u64), Violation, u64)>,
}
impl Acc {
    fn merge(mut self, o: Acc) -> Acc {
        self.evaluated += o.evaluated;
        self.rejected += o.rejected;
        self.accepted_equal += o.accepted_equal;
        for (k, v) in o.by_family {
            *self.by_family.entry(k).or_default() += v;
        }
        for (k, v) in o.by_weight {
            *self.by_weight.entry(k).or_default() += v;
        }
        for (k, (key, v, n)) in o.fails {
            match self.fails.get_mut(&k) {
                Some(e) => {
                    e.2 += n;
                    if key < e.0 {
                        e.0 = key;
                        e.1 = v;
                    }
                }
                None => {
                    self.fails.insert(k, (key, v, n));
                }
            }
        }
        self
    }
}

/// the property's own classes: one, two, an odd number of flipped bits, else (even weight >= 4) a burst
fn weight_class(w: usize) -> &'static str {
    match w {
        1 => "single",
        2 => "double",
        w if w % 2 == 1 => "odd",
        _ => "burst",
    }
}

fn flip(buf: &mut [u8], bit: usize) {
    buf[SKIP + bit / 8] ^= 0x80 >> (bit % 8);
}

struct Case<'a> {
    idx: usize,
    name: &'a str,
    original: &'a PDU,
    bytes: &'a [u8],
}

/// apply, decode, judge, undo
fn evaluate(c: &Case, buf: &mut [u8], flips: &[usize], family: &'static str, ordinal: u64, acc: &mut Acc, verbose: bool) {
    for &b in flips {
        flip(buf, b);
    }
    let res = catch_loc(|| PDU::decode(&mut &buf[..]));
    acc.evaluated += 1;
    *acc.by_family.entry(family).or_default() += 1;
    let wc = weight_class(flips.len());
    *acc.by_weight.entry(wc).or_default() += 1;
    let fail: Option<(String, &'static str, String)> = match &res {
        Ok(Err(e)) => {
            acc.rejected += 1;
            if verbose {
                println!("corrupted: {}\nresult   : Err({})", hex(buf), e);
            }
            None
        }
        Ok(Ok(p)) if p == c.original => {
            acc.accepted_equal += 1;
            if verbose {
                println!("corrupted: {}\nresult   : accepted, equal to the original (only spare bits changed)", hex(buf));
            }
            None
        }
        Ok(Ok(p)) => {
            let (e, g) = (format!("{:?}", c.original), format!("{:?}", p));
            Some((format!("accepted-different|{}", wc), "accepted-different", format!("sent    : {}\naccepted: {}\nfirst difference: {}", e, g, diff_class(&e, &g))))
        }
        Err(p) => Some((format!("panic|{}", panic_class(p)), "panic", format!("PDU::decode panicked at {}: {}", p.loc, p.msg))),
    };
    if let Some((sig, clause, detail)) = fail {
        if verbose {
            println!("corrupted: {}\nFAILED {}\n{}", hex(buf), sig, detail);
        }
        let key = (c.idx, ordinal);
        let mk = || Violation {
            clause: clause.to_string(),
            signature: sig.clone(),
            detail: format!("{}: flipping bits {:?} (counted from octet 4, family {}) of {}\ngives {}\n{}", c.name, flips, family, hex(c.bytes), hex(buf), detail),
            replay: json!({"engine": "en-crc", "shape": c.name, "pdu": hex(c.bytes), "flips": flips, "family": family}),
        };
        match acc.fails.get_mut(&sig) {
            Some(e) => {
                e.2 += 1;
                if key < e.0 {
                    e.0 = key;
                    e.1 = mk();
                }
            }
            None => {
                acc.fails.insert(sig.clone(), (key, mk(), 1));
            }
        }
    }
    for &b in flips {
        flip(buf, b);
    }
}

/// all patterns whose first flipped bit is `f`
fn patterns_from(c: &Case, f: usize, max_burst: usize, max_pair: usize, acc: &mut Acc) {
    let n = (c.bytes.len() - SKIP) * 8;
    let mut buf = c.bytes.to_vec();
    // ordinal: position-major; only used to pick the first failing case deterministically
    let mut ord = (f as u64) << 32;
    let mut flips: Vec<usize> = Vec::with_capacity(16);
    // bursts: span 1, then spans 2..=max_burst with every interior
    evaluate(c, &mut buf, &[f], "burst", ord, acc, false);
    for span in 2..=max_burst {
        let l = f + span - 1;
        if l >= n {
            break;
        }
        for interior in 0u32..(1u32 << (span - 2)) {
            ord += 1;
            flips.clear();
            flips.push(f);
            for j in 0..span - 2 {
                if interior >> j & 1 == 1 {
                    flips.push(f + 1 + j);
                }
            }
            flips.push(l);
            evaluate(c, &mut buf, &flips, "burst", ord, acc, false);
        }
    }
    // pairs further apart than an enumerated burst (span > max_burst)
    for g in (f + max_burst)..n.min(f.saturating_add(max_pair).saturating_add(1)) {
        ord += 1;
        evaluate(c, &mut buf, &[f, g], "pair", ord, acc, false);
    }
    // triples wider than a burst, span <= 24
    for h in (f + max_burst)..n.min(f + 24) {
        for g in f + 1..h {
            ord += 1;
            evaluate(c, &mut buf, &[f, g, h], "triple", ord, acc, false);
        }
    }
}

fn replay(path: &str) -> Report {
    let mut rep = Report::new("fault_enumeration");
    let v: Value = serde_json::from_str(&std::fs::read_to_string(path).expect("replay file")).expect("replay json");
    let bytes = unhex(v["case"]["pdu"].as_str().unwrap_or(""));
    let flips: Vec<usize> = v["case"]["flips"].as_array().map(|a| a.iter().map(|x| x.as_u64().unwrap_or(0) as usize).collect()).unwrap_or_default();
    println!("original : {}", hex(&bytes));
    let original = match catch_loc(|| PDU::decode(&mut bytes.as_slice())) {
        Ok(Ok(p)) => p,
        other => {
            println!("the unaltered bytes are not accepted: {:?}", other.map(|r| r.map(|_| ())));
            rep.violations.push(Violation { clause: "unaltered".into(), signature: v["signature"].as_str().unwrap_or("unaltered").to_string(), detail: "unaltered bytes rejected".into(), replay: v["case"].clone() });
            return rep;
        }
    };
    println!("decodes to {:?}", original);
    println!("flipping bits {:?} (counted from octet 4)", flips);
    let name = v["case"]["shape"].as_str().unwrap_or("?").to_string();
    let c = Case { idx: 0, name: &name, original: &original, bytes: &bytes };
    let mut acc = Acc::default();
    let mut buf = bytes.clone();
    evaluate(&c, &mut buf, &flips, "replay", 0, &mut acc, true);
    let want = v["signature"].as_str().unwrap_or("");
    rep.violations = acc.fails.into_values().map(|x| x.1).filter(|x| want.is_empty() || x.signature == want).collect();
    println!("{}", if rep.violations.is_empty() { "the case passes now" } else { "the case still fails" });
    rep.coverage = json!({"evaluations": 1});
    rep
}

pub fn run(args: &Args) -> Report {
    install_panic_recorder();
    if let Some(p) = &args.replay {
        return replay(p);
    }
    let mut rep = Report::new("fault_enumeration");
    let (max_burst, max_pair) = (args.tier.pick(13, 16), args.tier.pick(256, usize::MAX));
    let corpus: Vec<(String, PDU, Vec<u8>)> =
        shape_corpus().into_iter().filter(|(_, p)| p.header.crc_flag == CRCFlag::Present).map(|(n, p)| (n, p.clone(), p.encode())).collect();
    let mut total = Acc::default();
    let mut per_pdu = vec![];
    let mut samples = vec![];
    for (idx, (name, pdu, bytes)) in corpus.iter().enumerate() {
        // the unaltered encoding must be accepted as the original
        match catch_loc(|| PDU::decode(&mut bytes.as_slice())) {
            Ok(Ok(p)) if &p == pdu => {}
            other => {
                rep.violations.push(Violation {
                    clause: "unaltered".into(),
                    signature: format!("unaltered-rejected|{}", name.split('/').next().unwrap_or("")),
                    detail: format!("{}: the unaltered encoding {} is not accepted as the original: {:?}", name, hex(bytes), other.map(|r| r.map(|_| "a different PDU"))),
                    replay: json!({"engine": "en-crc", "shape": name, "pdu": hex(bytes), "flips": []}),
                });
                continue;
            }
        }
        let c = Case { idx, name, original: pdu, bytes };
        let n = (bytes.len() - SKIP) * 8;
        let acc = (0..n)
            .into_par_iter()
            .fold(Acc::default, |mut acc, f| {
                patterns_from(&c, f, max_burst, max_pair, &mut acc);
                acc
            })
            .reduce(Acc::default, Acc::merge);
        per_pdu.push(json!({"pdu": name, "bytes": bytes.len(), "bits": n, "patterns": acc.evaluated, "rejected": acc.rejected, "accepted_equal_to_original": acc.accepted_equal}));
        if samples.len() < 4 {
            samples.push(json!({"pdu": name, "encoding": hex(bytes), "pattern_examples": [[0], [0, 1, 3, 10], [5, 70], [8, 20, 31]]}));
        }
        total = total.merge(acc);
    }
    let failed: u64 = total.fails.values().map(|x| x.2).sum();
    rep.coverage = json!({
        "evaluations": total.evaluated,
        "distinct_nontrivial": total.rejected + total.accepted_equal,
        "rejected": total.rejected,
        "accepted_equal_to_original": total.accepted_equal,
        "accepted_different_or_panicked": failed,
        "patterns_by_family": total.by_family,
        "patterns_by_weight_class": total.by_weight,
        "corpus_pdus": corpus.len(),
        "max_burst_span": max_burst,
        "max_pair_distance": if max_pair == usize::MAX { json!("any") } else { json!(max_pair) },
        "per_pdu": per_pdu,
        "rule": "for every corpus PDU and every first flipped bit f after the 4 fixed header octets: all bursts of span <= max_burst_span starting at f (both end bits flipped, every interior), all pairs (f,g) with max_burst_span <= g-f <= max_pair_distance, all triples (f,g,h) with max_burst_span <= h-f <= 23. The families are disjoint by span and weight, so each evaluated pattern is distinct; a pattern is non-trivial (it alters at least one bit) and counts when it was evaluated and the verdict was rejected-or-equal-to-original",
        "exhaustive": true,
        "failed_by_signature": total.fails.iter().map(|(k, v)| (k.clone(), v.2)).collect::<BTreeMap<_, _>>(),
        "samples": samples,
    });
    rep.assumptions = vec![
        "the 4 fixed header octets (flags, length, id widths) are outside the altered region, as the property states".into(),
        "error patterns wider than 24 bits are represented only by pairs; odd weights above 3 only inside 16-bit windows (as bursts)".into(),
        "detection is assumed independent of the identifier values and payload contents beyond the 32 corpus PDUs".into(),
    ];
    if total.evaluated == 0 {
        rep.machinery_errors.push("no pattern evaluated".into());
    }
    rep.violations.extend(total.fails.into_values().map(|x| x.1));
    rep
}
