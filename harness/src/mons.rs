//! Per-property oracle automata for the E1 (txn-mc) engine.
use crate::bfs::{Ctx, Monitor};
use crate::world::*;
use cfdp_core::daemon::Indication;
use cfdp_core::pdu::{Condition, DeliveryCode, FileStatusCode};

/// (condition, delivery, file status) of a Finished indication
pub fn fin_of(i: &Indication) -> Option<(Condition, DeliveryCode, FileStatusCode)> {
    match i {
        Indication::Finished(f) => Some((f.report.condition, f.delivery_code, f.file_status)),
        _ => None,
    }
}
pub fn is_success(scn: &Scenario, f: &(Condition, DeliveryCode, FileStatusCode)) -> bool {
    f.0 == Condition::NoError && f.1 == DeliveryCode::Complete && (scn.file_size.is_none() || f.2 == FileStatusCode::Retained)
}

// ------------------------------------------------------------------------------------------
/// C02: acknowledged mode recovers from bounded faults.
#[derive(Default)]
pub struct C02 {
    r_success: bool,
    s_success: bool,
    r_last: String,
    s_last: String,
}
impl Monitor for C02 {
    fn step(&mut self, rec: &StepRec, ctx: &mut Ctx) {
        for (side, i) in &rec.inds {
            if let Some(f) = fin_of(i) {
                let ok = is_success(ctx.scn, &f);
                let s = format!("{:?}/{:?}/{:?}", f.0, f.1, f.2);
                match side {
                    Side::S => {
                        self.s_success |= ok;
                        self.s_last = s;
                    }
                    Side::R => {
                        self.r_success |= ok;
                        self.r_last = s;
                    }
                }
            }
        }
    }
    fn terminal(&mut self, last: &Obs, ctx: &mut Ctx) {
        ctx.arm("terminal");
        let ended = last.s_life.over() && last.r_life.over();
        let file_ok = match ctx.scn.file_size {
            Some(_) => last.dest().map_or(false, |d| d.as_slice() == ctx.src),
            None => true,
        };
        let lifes = format!("S={:?}[{}] R={:?}[{}]", last.s_life, self.s_last, last.r_life, self.r_last);
        if !ended {
            ctx.flag("not-ended", lifes.clone(), format!("the exchange is over (no event enabled) but not both transactions ended: {}", lifes));
        }
        if !self.r_success {
            ctx.flag("receiver-no-success", lifes.clone(), format!("the receiver never reported a successful complete delivery: {}", lifes));
        } else if !file_ok {
            ctx.flag("dest-differs", lifes.clone(), format!("the receiver reported success but the destination is {:?}, source {:?}", last.dest().map(|d| crate::common::hex(d)), crate::common::hex(ctx.src)));
        }
        if !self.s_success {
            ctx.flag("sender-no-success", lifes.clone(), format!("the sender never reported a successful complete delivery: {}", lifes));
        }
    }
    fn key(&self) -> String {
        format!("{}{}{}{}", self.r_success, self.s_success, self.r_last, self.s_last)
    }
    fn outcome(&self) -> String {
        format!("r_ok={} s_ok={}", self.r_success, self.s_success)
    }
}

// ------------------------------------------------------------------------------------------
use cfdp_core::pdu::{FileDataPDU, Operations, PDUPayload, PDU};

pub fn data_of(p: &PDU) -> Option<(u64, &Vec<u8>)> {
    match &p.payload {
        PDUPayload::FileData(FileDataPDU::Unsegmented(u)) => Some((u.offset, &u.file_data)),
        PDUPayload::FileData(FileDataPDU::Segmented(s)) => Some((s.offset, &s.file_data)),
        _ => None,
    }
}
pub fn op_of(p: &PDU) -> Option<&Operations> {
    match &p.payload {
        PDUPayload::Directive(op) => Some(op),
        _ => None,
    }
}
fn bits(a: u64, b: u64) -> u128 {
    // bytes [a,b) as a bit set (files are < 128 bytes in every scenario)
    let a = a.min(127);
    let b = b.min(127);
    if b <= a {
        0
    } else {
        ((1u128 << b) - 1) & !((1u128 << a) - 1)
    }
}
fn runs(mask: u128, n: u64) -> Vec<(u64, u64)> {
    let mut out = vec![];
    let mut cur: Option<u64> = None;
    for p in 0..n {
        if (mask >> p) & 1 == 1 {
            if cur.is_none() {
                cur = Some(p);
            }
        } else if let Some(s) = cur.take() {
            out.push((s, p));
        }
    }
    if let Some(s) = cur {
        out.push((s, n));
    }
    out
}

/// what has been handed to the receiver so far (the monitor's own account)
#[derive(Default, Clone)]
pub struct Deliv {
    pub held: u128,
    pub meta: bool,
    pub eof: Option<u64>,
    pub prompt: bool,
    /// a prompt has been delivered and not answered yet
    pub prompt_pending: bool,
    pub max_end: u64,
}
impl Deliv {
    pub fn step(&mut self, rec: &StepRec) {
        if let Some((Side::R, p)) = &rec.delivered {
            if let Some((o, d)) = data_of(p) {
                self.held |= bits(o, o + d.len() as u64);
                if !d.is_empty() {
                    self.max_end = self.max_end.max(o + d.len() as u64);
                }
            }
            match op_of(p) {
                Some(Operations::Metadata(_)) => self.meta = true,
                Some(Operations::EoF(e)) if e.condition == Condition::NoError => {
                    if self.eof.is_none() {
                        self.eof = Some(e.file_size)
                    }
                }
                Some(Operations::Prompt(pr)) => {
                    self.prompt = true;
                    if pr.nak_or_keep_alive == cfdp_core::pdu::NakOrKeepAlive::Nak {
                        self.prompt_pending = true;
                    }
                }
                _ => {}
            }
        }
        if matches!(rec.ev, Ev::Send(Side::R)) {
            self.prompt_pending = false; // the receiver answers a prompt at its next send opportunity
        }
    }
    pub fn missing(&self, size: u64) -> u128 {
        bits(0, size) & !self.held
    }
    pub fn key(&self) -> String {
        format!("{:x}/{}/{:?}/{}{}/{}", self.held, self.meta, self.eof, self.prompt, self.prompt_pending, self.max_end)
    }
}

// ------------------------------------------------------------------------------------------
/// C01: a file reported as delivered is byte-identical to the source.
#[derive(Default)]
pub struct C01 {
    r_success: bool,
    s_success: bool,
}
fn dest_kind(dest: Option<&Vec<u8>>, src: &[u8]) -> &'static str {
    match dest {
        None => "absent",
        Some(d) if d.as_slice() == src => "equal",
        Some(d) if d.len() < src.len() => "shorter",
        Some(d) if d.len() > src.len() => "longer",
        Some(_) => "same-length-different-bytes",
    }
}
impl Monitor for C01 {
    fn step(&mut self, rec: &StepRec, ctx: &mut Ctx) {
        for (side, i) in &rec.inds {
            if let Some(f) = fin_of(i) {
                if ctx.scn.file_size.is_some() && f.0 == Condition::NoError && f.1 == DeliveryCode::Complete && f.2 == FileStatusCode::Retained {
                    ctx.arm("success-report");
                    let k = dest_kind(rec.obs.dest(), ctx.src);
                    if k != "equal" {
                        ctx.flag(
                            "reported-success-wrong-file",
                            format!("{:?}|{}|{}", side, if ctx.scn.null_checksum { "null" } else { "modular" }, k),
                            format!("{:?} reported NoError/Complete/Retained but the destination is {} ({:?}), source {}", side, k, rec.obs.dest().map(|d| crate::common::hex(d)), crate::common::hex(ctx.src)),
                        );
                    }
                    match side {
                        Side::S => self.s_success = true,
                        Side::R => self.r_success = true,
                    }
                }
            }
        }
    }
    fn terminal(&mut self, last: &Obs, ctx: &mut Ctx) {
        if self.r_success || self.s_success {
            ctx.arm("terminal-after-success");
            let k = dest_kind(last.dest(), ctx.src);
            if k != "equal" {
                ctx.flag("success-but-final-file-wrong", format!("{}|{}", if ctx.scn.null_checksum { "null" } else { "modular" }, k), format!("a success was reported but at the end the destination is {}", k));
            }
        }
    }
    fn key(&self) -> String {
        format!("{}{}", self.r_success, self.s_success)
    }
    fn outcome(&self) -> String {
        format!("r_ok={} s_ok={}", self.r_success, self.s_success)
    }
}

// ------------------------------------------------------------------------------------------
/// C03: bounded termination. Deadlock and livelock are the engine's generic graph conditions;
/// this monitor adds the time bound after the last PDU delivered to a transaction.
#[derive(Default)]
pub struct C03 {
    last_s: u64, // virtual ms of the last delivery to S (or its creation)
    last_r: u64,
    now: u64,
    done_s: bool,
    done_r: bool,
    pub max_seen: u64,
}
pub fn c03_bound(scn: &Scenario) -> u64 {
    (scn.max_count as u64 + 1) * (scn.t_inact + scn.t_ack + scn.t_nak) as u64 * 1000
}
impl Monitor for C03 {
    fn step(&mut self, rec: &StepRec, ctx: &mut Ctx) {
        self.now = rec.obs.now.as_millis() as u64;
        if let Some((to, _)) = &rec.delivered {
            match to {
                Side::S => self.last_s = self.now,
                Side::R => self.last_r = self.now,
            }
        }
        if rec.obs.r_life == Life::NotCreated {
            self.last_r = self.now;
        }
        let b = c03_bound(ctx.scn);
        for (side, life, last, done) in [(Side::S, rec.obs.s_life, self.last_s, &mut self.done_s), (Side::R, rec.obs.r_life, self.last_r, &mut self.done_r)] {
            if life.over() && !*done {
                *done = true;
                ctx.arm("ended");
                let took = self.now - last;
                self.max_seen = self.max_seen.max(took);
                if took > b {
                    ctx.flag("bound", format!("{:?}", side), format!("{:?} ended {} ms after the last PDU delivered to it; the bound is {} ms", side, took, b));
                }
            } else if life.live() && self.now - last > b {
                ctx.flag("bound", format!("{:?}-still-live", side), format!("{:?} is still live {} ms after the last PDU delivered to it; the bound is {} ms", side, self.now - last, b));
            }
        }
    }
    fn key(&self) -> String {
        format!("{}/{}/{}{}", self.now - self.last_s, self.now - self.last_r, self.done_s, self.done_r)
    }
}

// ------------------------------------------------------------------------------------------
/// C04: a completed delivery is final.
#[derive(Default)]
pub struct C04 {
    r_success: bool,
    snap: Option<std::collections::BTreeMap<String, Option<Vec<u8>>>>,
}
fn integrity(c: Condition) -> bool {
    matches!(c, Condition::FileChecksumFailure | Condition::FilesizeError)
}
impl Monitor for C04 {
    fn step(&mut self, rec: &StepRec, ctx: &mut Ctx) {
        // (d) the sender reports success only for a transaction its receiver reported delivered
        let mut r_now = false;
        for (side, i) in &rec.inds {
            if let Some(f) = fin_of(i) {
                if *side == Side::R && is_success(ctx.scn, &f) {
                    r_now = true;
                }
            }
        }
        if self.r_success {
            ctx.arm("after-success");
            if let Some(snap) = &self.snap {
                if *snap != rec.obs.r_root {
                    let mut what = vec![];
                    for (k, v) in &rec.obs.r_root {
                        if snap.get(k) != Some(v) {
                            what.push(format!("{} now {:?} was {:?}", k, v.as_ref().map(|b| crate::common::hex(b)), snap.get(k).map(|x| x.as_ref().map(|b| crate::common::hex(b)))));
                        }
                    }
                    for k in snap.keys() {
                        if !rec.obs.r_root.contains_key(k) {
                            what.push(format!("{} disappeared", k));
                        }
                    }
                    let dest_changed = snap.get(DST_NAME) != rec.obs.r_root.get(DST_NAME);
                    ctx.flag(
                        if dest_changed { "delivered-file-changed" } else { "request-effect-repeated" },
                        format!("{:?}", rec.delivered.as_ref().map(|d| pdu_kind(&d.1))),
                        format!("after the receiver reported success the filestore changed: {}", what.join("; ")),
                    );
                    self.snap = Some(rec.obs.r_root.clone()); // report each change once
                }
            }
            for (side, i) in &rec.inds {
                let c = match i {
                    Indication::Finished(f) => Some(f.report.condition),
                    Indication::Fault(f) | Indication::Abandon(f) => Some(f.condition),
                    _ => None,
                };
                if let Some(c) = c {
                    if integrity(c) {
                        ctx.flag("integrity-failure-after-success", format!("{:?}|{:?}", side, c), format!("{:?} reported {:?} for a transaction the receiver had reported as successfully delivered", side, c));
                    }
                }
            }
            for (side, p) in &rec.out {
                if let Some(Operations::Finished(f)) = op_of(p) {
                    if integrity(f.condition) {
                        ctx.flag("integrity-failure-after-success", format!("{:?}|pdu|{:?}", side, f.condition), format!("a Finished PDU with {:?} was sent after the successful delivery", f.condition));
                    }
                }
            }
        }
        for (side, i) in &rec.inds {
            if let Some(f) = fin_of(i) {
                // (for the sender, NoError + Complete is the claim, whatever file status it echoes)
                if *side == Side::S && f.0 == Condition::NoError && f.1 == DeliveryCode::Complete {
                    ctx.arm("sender-success");
                    if !self.r_success && !r_now {
                        ctx.flag("sender-success-without-receiver-success", "", "the sender reported NoError/Complete although its receiver never reported a successful delivery");
                    }
                }
            }
        }
        if r_now && !self.r_success {
            self.r_success = true;
            self.snap = Some(rec.obs.r_root.clone());
        }
    }
    fn key(&self) -> String {
        format!("{}{:?}", self.r_success, self.snap.as_ref().map(|m| m.iter().map(|(k, v)| format!("{}={:?}", k, v.as_ref().map(|b| crate::common::hex(b)))).collect::<Vec<_>>()))
    }
    fn outcome(&self) -> String {
        format!("r_ok={}", self.r_success)
    }
}
pub fn pdu_kind(p: &PDU) -> &'static str {
    match &p.payload {
        PDUPayload::FileData(_) => "FileData",
        PDUPayload::Directive(op) => match op {
            Operations::EoF(_) => "EOF",
            Operations::Finished(_) => "Finished",
            Operations::Ack(_) => "ACK",
            Operations::Metadata(_) => "Metadata",
            Operations::Nak(_) => "NAK",
            Operations::Prompt(_) => "Prompt",
            Operations::KeepAlive(_) => "KeepAlive",
        },
    }
}

// ------------------------------------------------------------------------------------------
/// C18: unacknowledged mode is one-way unless closure is requested; closure works.
#[derive(Default)]
pub struct C18 {
    d: Deliv,
    meta_sent: u8,
    eof_sent: u8,
    data_sent: std::collections::BTreeMap<u64, u8>,
    fin_delivered: Option<String>,
    s_fault: bool,
    s_done: bool,
    r_fin_ind: Option<String>,
}
impl Monitor for C18 {
    fn step(&mut self, rec: &StepRec, ctx: &mut Ctx) {
        self.d.step(rec);
        let scn = ctx.scn;
        for (side, p) in &rec.out {
            match side {
                Side::R => {
                    ctx.arm("receiver-pdu");
                    match op_of(p) {
                        Some(Operations::Ack(_)) | Some(Operations::Nak(_)) | Some(Operations::KeepAlive(_)) => {
                            ctx.flag("receiver-sent-forbidden-pdu", pdu_kind(p), format!("the receiver sent {} in unacknowledged mode", pdu_brief(p)))
                        }
                        Some(Operations::Finished(f)) => {
                            if !scn.closure {
                                ctx.flag("receiver-sent-forbidden-pdu", "Finished-without-closure", "the receiver sent Finished although closure was not requested");
                            } else if let Some(ind) = &self.r_fin_ind {
                                let s = format!("{:?}/{:?}/{:?}", f.condition, f.delivery_code, f.file_status);
                                if &s != ind {
                                    ctx.flag("finished-not-true-outcome", format!("{} vs {}", s, ind), format!("the Finished PDU states {} but the receiver reported {} to its user", s, ind));
                                }
                            }
                        }
                        _ => {}
                    }
                }
                Side::S => {
                    ctx.arm("sender-pdu");
                    let n = if let Some((o, dd)) = data_of(p) {
                        if dd.is_empty() {
                            0
                        } else {
                            let e = self.data_sent.entry(o).or_insert(0);
                            *e += 1;
                            *e
                        }
                    } else {
                        match op_of(p) {
                            Some(Operations::Metadata(_)) => {
                                self.meta_sent += 1;
                                self.meta_sent
                            }
                            Some(Operations::EoF(e)) if e.condition == Condition::NoError => {
                                self.eof_sent += 1;
                                self.eof_sent
                            }
                            _ => 0,
                        }
                    };
                    if n > 1 {
                        ctx.flag("sender-retransmitted", pdu_kind(p), format!("the sender transmitted {} a second time in unacknowledged mode", pdu_brief(p)));
                    }
                }
            }
        }
        if let Some((Side::S, p)) = &rec.delivered {
            if let Some(Operations::Finished(f)) = op_of(p) {
                self.fin_delivered = Some(format!("{:?}/{:?}", f.condition, f.delivery_code));
                if scn.closure {
                    ctx.arm("finished-delivered-to-sender");
                    // whatever phase the sender is in, the receiver's outcome reaches its user
                    if !rec.inds.iter().any(|(s2, i2)| *s2 == Side::S && matches!(i2, Indication::Finished(_))) {
                        ctx.flag("finished-not-reported", format!("{}", rec.obs.s_sub), format!("closure: the Finished PDU {} reached the sender (sub-state {}) but no Finished indication was raised ({:?})", pdu_brief(p), rec.obs.s_sub, rec.err));
                    }
                }
            }
        }
        for (side, i) in &rec.inds {
            match (side, i) {
                (Side::S, Indication::Fault(_)) | (Side::S, Indication::Abandon(_)) => self.s_fault = true,
                (Side::S, Indication::Finished(f)) if scn.closure => {
                    // the outcome the receiver stated
                    let s = format!("{:?}/{:?}", f.report.condition, f.delivery_code);
                    if let Some(fd) = &self.fin_delivered {
                        ctx.arm("sender-outcome");
                        if &s != fd {
                            ctx.flag("sender-outcome-differs", format!("{} vs {}", s, fd), format!("the sender reported {} but the Finished PDU it received states {}", s, fd));
                        }
                    }
                }
                (Side::R, Indication::Finished(f)) => {
                    self.r_fin_ind = Some(format!("{:?}/{:?}/{:?}", f.report.condition, f.delivery_code, f.file_status));
                    if f.report.condition == Condition::NoError && f.delivery_code == DeliveryCode::Complete {
                        ctx.arm("receiver-complete");
                        let size = scn.file_size.unwrap_or(0);
                        if !self.d.meta || self.d.missing(size) != 0 {
                            ctx.flag(
                                "complete-with-missing-data",
                                format!("meta={} missing={:?}", self.d.meta, runs(self.d.missing(size), size).len()),
                                format!("the receiver reported NoError/Complete although metadata delivered={} and bytes {:?} were never delivered", self.d.meta, runs(self.d.missing(size), size)),
                            );
                        }
                    }
                }
                _ => {}
            }
        }
        // closure: the sender waits for Finished (up to its limits) and only then ends
        if rec.obs.s_life.over() && !self.s_done {
            self.s_done = true;
            if scn.closure && rec.obs.s_life == Life::Terminated {
                ctx.arm("sender-ended");
                if self.fin_delivered.is_none() && !self.s_fault {
                    ctx.flag("sender-ended-before-finished", "", "closure was requested but the sender ended without having received Finished and without having exhausted a limit");
                }
            }
        }
    }
    fn terminal(&mut self, last: &Obs, ctx: &mut Ctx) {
        if !(last.s_life.over() && last.r_life.over() || last.r_life == Life::NotCreated && last.s_life.over()) {
            ctx.flag("not-ended", format!("S={:?} R={:?}", last.s_life, last.r_life), "the exchange is over but a transaction has not ended");
        }
    }
    fn key(&self) -> String {
        format!("{} {} {} {:?} {:?} {} {} {:?}", self.d.key(), self.meta_sent, self.eof_sent, self.data_sent, self.fin_delivered, self.s_fault, self.s_done, self.r_fin_ind)
    }
}

// ------------------------------------------------------------------------------------------
/// C20: progress figures are truthful.
#[derive(Default)]
pub struct C20 {
    d: Deliv,
    s_max: u64,
    last_r: u64,
    last_s: u64,
}
impl Monitor for C20 {
    fn step(&mut self, rec: &StepRec, ctx: &mut Ctx) {
        self.d.step(rec);
        let size = ctx.scn.file_size.unwrap_or(0);
        for (side, p) in &rec.out {
            if *side == Side::S {
                if let Some((o, dd)) = data_of(p) {
                    if !dd.is_empty() {
                        self.s_max = self.s_max.max(o + dd.len() as u64);
                    }
                }
            }
        }
        let held = self.d.held.count_ones() as u64;
        let mut check = |side: Side, what: &str, got: u64, ctx: &mut Ctx, last: &mut u64| {
            let want = if side == Side::R { held } else { self.s_max };
            ctx.arm("progress-report");
            if got != want {
                ctx.flag(
                    "progress-wrong",
                    format!("{:?}|{}|{}", side, what, if got > want { "over" } else { "under" }),
                    format!("{:?} reported progress {} in {} but {} is {}", side, got, what, if side == Side::R { "the number of distinct bytes it holds" } else { "the highest offset it has transmitted" }, want),
                );
            }
            if got > size {
                ctx.flag("progress-exceeds-size", format!("{:?}|{}", side, what), format!("{:?} reported progress {} > file size {}", side, got, size));
            }
            if got < *last {
                ctx.flag("progress-decreased", format!("{:?}|{}", side, what), format!("{:?} reported progress {} after {}", side, got, *last));
            }
            *last = got;
        };
        for (side, p) in &rec.out {
            if let Some(Operations::KeepAlive(k)) = op_of(p) {
                if *side == Side::R {
                    check(Side::R, "KeepAlive", k.progress, ctx, &mut self.last_r);
                }
            }
        }
        for (side, i) in &rec.inds {
            let (what, prog) = match i {
                Indication::Fault(f) => ("Fault", f.progress),
                Indication::Abandon(f) => ("Abandon", f.progress),
                Indication::Resumed(r) => ("Resumed", r.progress),
                _ => continue,
            };
            match side {
                Side::R => check(Side::R, what, prog, ctx, &mut self.last_r),
                Side::S => check(Side::S, what, prog, ctx, &mut self.last_s),
            }
        }
    }
    fn key(&self) -> String {
        format!("{:x} {} {} {}", self.d.held, self.s_max, self.last_r, self.last_s)
    }
}

// ------------------------------------------------------------------------------------------
/// C10: cancel ends both sides and never leaves a partial file.
#[derive(Default)]
pub struct C10 {
    cancelled_by: Option<Side>,
    blackout: bool,
    r_success_before: bool,
    r_success: bool,
    s_last_cond: Option<Condition>,
    r_last_cond: Option<Condition>,
    /// the peer had already ended when the cancel was issued (nothing to tell it)
    peer_over_at_cancel: bool,
    /// a PDU was lost: in unacknowledged mode nothing is retransmitted, so the peer was not
    /// reachable for it
    lost: bool,
    /// the sender's EOF(cancel) has been delivered to the receiver
    r_knows: bool,
}
impl Monitor for C10 {
    fn step(&mut self, rec: &StepRec, ctx: &mut Ctx) {
        if let Ev::Blackout(_) = rec.ev {
            self.blackout = true;
        }
        if let Ev::Drop(_) = rec.ev {
            self.lost = true;
        }
        if let Some((Side::R, p)) = &rec.delivered {
            if let Some(Operations::EoF(e)) = op_of(p) {
                if e.condition == Condition::CancelReceived {
                    self.r_knows = true;
                }
            }
        }
        for (side, i) in &rec.inds {
            match i {
                Indication::Finished(f) => {
                    if *side == Side::R && is_success(ctx.scn, &(f.report.condition, f.delivery_code, f.file_status)) {
                        // a cancel that has taken effect at the receiver (its own user's request, or
                        // the sender's EOF(cancel) delivered) rules out a later "delivered" report
                        if (self.cancelled_by == Some(Side::R) || self.r_knows) && !self.r_success {
                            ctx.flag("delivered-after-cancel", format!("by={:?}", self.cancelled_by), "the receiver reported a successful complete delivery after the cancel had taken effect at it");
                        }
                        self.r_success = true;
                        if self.cancelled_by.is_none() {
                            self.r_success_before = true;
                        }
                    }
                    match side {
                        Side::S => self.s_last_cond = Some(f.report.condition),
                        Side::R => self.r_last_cond = Some(f.report.condition),
                    }
                }
                Indication::Report(r) => {
                    // the final report (state Terminated) also carries the condition
                    if r.state == cfdp_core::transaction::TransactionState::Terminated {
                        match side {
                            Side::S => self.s_last_cond = self.s_last_cond.or(Some(r.condition)),
                            Side::R => self.r_last_cond = self.r_last_cond.or(Some(r.condition)),
                        }
                    }
                }
                _ => {}
            }
        }
        if let Ev::User(side, UserOp::Cancel) = rec.ev {
            if self.cancelled_by.is_none() {
                self.cancelled_by = Some(side);
                let peer = if side == Side::S { rec.obs.r_life } else { rec.obs.s_life };
                self.peer_over_at_cancel = peer.over();
            }
        }
        // (c) a partially received file is never exposed under the destination name
        if self.cancelled_by.is_some() && ctx.scn.file_size.is_some() {
            ctx.arm("after-cancel");
            if let Some(d) = rec.obs.dest() {
                if d.as_slice() != ctx.src {
                    ctx.flag("partial-file-exposed", dest_kind(Some(d), ctx.src), format!("after the cancel the destination name holds {:?}, which is not the source", crate::common::hex(d)));
                }
            }
        }
    }
    fn terminal(&mut self, last: &Obs, ctx: &mut Ctx) {
        let Some(by) = self.cancelled_by else { return };
        ctx.arm("terminal-after-cancel");
        let scn = ctx.scn;
        let (me, peer) = if by == Side::S { (last.s_life, last.r_life) } else { (last.r_life, last.s_life) };
        if !me.over() {
            ctx.flag("canceller-not-ended", format!("{:?}", by), format!("the cancel was issued at {:?} but that transaction never ended ({:?})", by, me));
        }
        // no return path: receiver-side cancel in unacknowledged mode without closure
        let no_return_path = by == Side::R && !scn.ack && !scn.closure;
        let peer_exists = !(by == Side::S && last.r_life == Life::NotCreated);
        if !self.blackout && peer_exists {
            if !peer.over() {
                ctx.flag("peer-not-ended", format!("by={:?}", by), format!("cancel at {:?}: the peer is reachable but never ended ({:?})", by, peer));
            }
            // the cancel lost the race if the delivery had already been reported complete
            // (the cancel lost the race if the receiver reported the delivery complete — before
            // the request, or before the request could reach it)
            if !no_return_path && !self.peer_over_at_cancel && !self.r_success && !(self.lost && !scn.ack) {
                let (mine, theirs) = if by == Side::S { (self.s_last_cond, self.r_last_cond) } else { (self.r_last_cond, self.s_last_cond) };
                if mine != Some(Condition::CancelReceived) {
                    ctx.flag("cancel-not-reported", format!("by={:?}|canceller|{:?}", by, mine), format!("cancel at {:?}: the cancelling entity's final report carries {:?}, not CancelReceived", by, mine));
                }
                if theirs != Some(Condition::CancelReceived) {
                    ctx.flag("cancel-not-reported", format!("by={:?}|peer|{:?}", by, theirs), format!("cancel at {:?}: the peer's final report carries {:?}, not CancelReceived", by, theirs));
                }
            }
        }
        if scn.file_size.is_some() && last.dest().is_some() && !self.r_success {
            ctx.flag("file-left-after-cancel", "", "a cancelled transfer left a file under the destination name although the receiver never reported it delivered");
        }
    }
    fn key(&self) -> String {
        format!("{:?}{}{}{}{:?}{:?}{}{}", self.cancelled_by, self.blackout, self.r_success_before, self.r_success, self.s_last_cond, self.r_last_cond, self.peer_over_at_cancel, self.lost) + if self.r_knows { "k" } else { "" }
    }
    fn outcome(&self) -> String {
        format!("cancel={:?} S={:?} R={:?}", self.cancelled_by, self.s_last_cond, self.r_last_cond)
    }
}

// ------------------------------------------------------------------------------------------
/// C19: suspend really suspends; resume picks up and completes.
#[derive(Default)]
pub struct C19 {
    susp_s: bool,
    susp_r: bool,
    ever: bool,
    resumed: bool,
    peer_fault: bool,
    c02: C02,
}
impl Monitor for C19 {
    fn step(&mut self, rec: &StepRec, ctx: &mut Ctx) {
        self.c02.step(rec, ctx);
        if let Ev::Blackout(_) = rec.ev {
            self.peer_fault = true; // a link that is gone for good rules completion out
        }
        // the suspension interval is delimited by the user's requests
        let was = (self.susp_s, self.susp_r);
        if was.0 || was.1 {
            ctx.arm("step-while-suspended");
        }
        for (side, p) in &rec.out {
            let s = if *side == Side::S { was.0 } else { was.1 };
            if s {
                ctx.arm("pdu-while-suspended");
                let forbidden = data_of(p).is_some() || matches!(op_of(p), Some(Operations::Metadata(_)) | Some(Operations::EoF(_)) | Some(Operations::Nak(_)) | Some(Operations::Finished(_)));
                if forbidden {
                    ctx.flag("transmitted-while-suspended", format!("{:?}|{}", side, pdu_kind(p)), format!("{:?} is suspended but transmitted {}", side, pdu_brief(p)));
                }
            }
        }
        for (side, i) in &rec.inds {
            let s = if *side == Side::S { was.0 } else { was.1 };
            if let Indication::Fault(f) | Indication::Abandon(f) = i {
                // the property speaks of timer faults; a fault raised by a PDU that reaches a
                // suspended entity (an EOF whose checksum does not match, say) is not one
                let timer_fault = matches!(f.condition, Condition::PositiveLimitReached | Condition::NakLimitReached | Condition::InactivityDetected | Condition::KeepAliveLimitReached);
                if s && timer_fault {
                    ctx.flag("fault-while-suspended", format!("{:?}|{:?}", side, f.condition), format!("{:?} is suspended but declared {:?}", side, f.condition));
                } else if self.susp_s || self.susp_r {
                    self.peer_fault = true; // the peer gave up while the other side was suspended
                }
            }
        }
        // a peer timer expiring while the other side is suspended: for the peer the suspension
        // is a delay longer than its timers, which C02's premise excludes
        if let Ev::Timeout(side, _) = rec.ev {
            if (side == Side::R && self.susp_s) || (side == Side::S && self.susp_r) {
                self.peer_fault = true;
            }
        }
        match rec.ev {
            Ev::User(Side::S, UserOp::Suspend) => {
                self.susp_s = true;
                self.ever = true
            }
            Ev::User(Side::R, UserOp::Suspend) => {
                self.susp_r = true;
                self.ever = true
            }
            Ev::User(Side::S, UserOp::Resume) => {
                self.susp_s = false;
                self.resumed = true
            }
            Ev::User(Side::R, UserOp::Resume) => {
                self.susp_r = false;
                self.resumed = true
            }
            _ => {}
        }
    }
    fn terminal(&mut self, last: &Obs, ctx: &mut Ctx) {
        // after resume the transfer completes as an unsuspended one (C02 clauses), provided the
        // peer did not run into its own limits during the suspension and nothing is still suspended
        if self.ever && self.resumed && !self.susp_s && !self.susp_r && !self.peer_fault && ctx.scn.ack {
            self.c02.terminal(last, ctx);
        }
    }
    fn key(&self) -> String {
        format!("{}{}{}{}{} {}", self.susp_s, self.susp_r, self.ever, self.resumed, self.peer_fault, self.c02.key())
    }
    fn outcome(&self) -> String {
        format!("susp_ever={} resumed={} peer_fault={} {}", self.ever, self.resumed, self.peer_fault, self.c02.outcome())
    }
}

// ------------------------------------------------------------------------------------------
/// C07: the sender transmits exactly the source file.
#[derive(Default)]
pub struct C07 {
    next: u64,         // first-pass cursor expected by the monitor
    eof_seen: bool,    // first EOF(NoError) went out
    requested: u128,   // bytes requested by NAKs so far (inside the file)
    owed: u128,        // requested and not yet retransmitted since
    owed_meta: bool,
    meta_sent: bool,
    prev_cursor: Option<u64>,
    zero_len: u32,
}
impl Monitor for C07 {
    fn step(&mut self, rec: &StepRec, ctx: &mut Ctx) {
        let scn = ctx.scn;
        let size = scn.file_size.unwrap_or(0);
        let seg = scn.seg as u64;
        // NAKs handed to the sender
        if let Some((Side::S, p)) = &rec.delivered {
            if let Some(Operations::Nak(n)) = op_of(p) {
                if rec.err.is_none() && rec.panic.is_none() {
                    for r in &n.segment_requests {
                        if r.start_offset == 0 && r.end_offset == 0 {
                            self.owed_meta = true;
                        } else if r.start_offset < r.end_offset {
                            let b = bits(r.start_offset, r.end_offset.min(size));
                            self.requested |= b;
                            self.owed |= b;
                        }
                    }
                }
            }
        }
        let cursor_before = self.prev_cursor;
        for (side, p) in &rec.out {
            if *side != Side::S {
                continue;
            }
            ctx.arm("sender-pdu");
            let h = &p.header;
            use cfdp_core::pdu::{Direction, VariableID};
            if h.source_entity_id != VariableID::from(ENT_S) || h.destination_entity_id != VariableID::from(ENT_R) || h.transaction_sequence_number != VariableID::from(SEQ) || h.transmission_mode != scn.mode() || h.direction != Direction::ToReceiver {
                ctx.flag("header-wrong", pdu_kind(p), format!("PDU {} carries header {:?}", pdu_brief(p), h));
            }
            if let Some((o, d)) = data_of(p) {
                let l = d.len() as u64;
                if l == 0 {
                    self.zero_len += 1;
                    continue;
                }
                if l > seg {
                    ctx.flag("data-longer-than-segment", "", format!("file data PDU {} is longer than the segment size {}", pdu_brief(p), seg));
                }
                if o + l > size {
                    ctx.flag("data-beyond-eof", "", format!("file data PDU {} reaches beyond the file size {}", pdu_brief(p), size));
                } else if d.as_slice() != &ctx.src[o as usize..(o + l) as usize] {
                    ctx.flag("data-bytes-wrong", "", format!("file data PDU {} does not carry the source bytes at that offset", pdu_brief(p)));
                }
                let advanced = match (cursor_before, rec.obs.s_cursor) {
                    (Some(a), Some(b)) => b > a,
                    (None, Some(b)) => b > 0,
                    _ => false,
                };
                if advanced {
                    // first pass: tiles the file once, in order
                    if self.eof_seen {
                        ctx.flag("first-pass-after-eof", "", format!("first-pass data {} after EOF", pdu_brief(p)));
                    }
                    if o != self.next || l != seg.min(size - self.next.min(size)) {
                        ctx.flag("first-pass-not-tiling", "", format!("first pass sent {} where [{}+{}] was due", pdu_brief(p), self.next, seg.min(size.saturating_sub(self.next))));
                    }
                    self.next = o + l;
                } else {
                    // retransmission: must be justified by a request, and only the requested part
                    let b = bits(o, o + l);
                    if b & !self.requested != 0 {
                        ctx.flag("retransmission-not-requested", "", format!("retransmitted {} but only {:?} was ever requested", pdu_brief(p), runs(self.requested, size)));
                    }
                    self.owed &= !b;
                    if let (Some(a), Some(c)) = (cursor_before, rec.obs.s_cursor) {
                        if a != c {
                            ctx.flag("cursor-moved-by-retransmission", "", format!("the read cursor moved from {} to {} while answering a NAK", a, c));
                        }
                    }
                }
            } else {
                match op_of(p) {
                    Some(Operations::Metadata(m)) => {
                        if m.file_size != size || m.source_filename.as_str() != (if scn.file_size.is_some() { SRC_NAME } else { "" }) || m.destination_filename.as_str() != (if scn.file_size.is_some() { DST_NAME } else { "" }) || m.closure_requested != scn.closure || m.checksum_type != scn.checksum_type() {
                            ctx.flag("metadata-wrong", "", format!("Metadata PDU states {:?}", m));
                        }
                        if self.meta_sent {
                            if !self.owed_meta {
                                ctx.flag("metadata-resent-unrequested", "", "metadata was sent again although no 0-0 request is outstanding");
                            }
                            self.owed_meta = false;
                        }
                        self.meta_sent = true;
                    }
                    Some(Operations::EoF(e)) => {
                        let want = if scn.null_checksum || scn.file_size.is_none() { 0 } else { crate::refck::modular_checksum(ctx.src) };
                        if e.file_size != size || e.checksum != want {
                            ctx.flag("eof-wrong", "", format!("EOF states size {} checksum {:08x}; the file has size {} checksum {:08x}", e.file_size, e.checksum, size, want));
                        }
                        if e.condition == Condition::NoError && !self.eof_seen {
                            self.eof_seen = true;
                            if scn.file_size.is_some() && self.next != size {
                                ctx.flag("first-pass-incomplete", "", format!("EOF was sent after the first pass covered only [0,{}) of {}", self.next, size));
                            }
                        }
                    }
                    _ => {}
                }
            }
        }
        self.prev_cursor = rec.obs.s_cursor;
        // everything requested is answered once the sender has nothing more to send
        if rec.obs.s_life == Life::Active && !rec.obs.s_has_pdu && rec.obs.s_naks.is_empty() {
            ctx.arm("quiescent");
            if self.owed != 0 {
                ctx.flag("request-not-answered", "", format!("the sender is idle but the requested bytes {:?} were never retransmitted", runs(self.owed, size)));
                self.owed = 0;
            }
            if self.owed_meta {
                ctx.flag("request-not-answered", "metadata", "the sender is idle but the requested metadata was never retransmitted");
                self.owed_meta = false;
            }
        }
    }
    fn key(&self) -> String {
        format!("{} {} {:x} {:x} {} {} {:?}", self.next, self.eof_seen, self.requested, self.owed, self.owed_meta, self.meta_sent, self.prev_cursor)
    }
    fn outcome(&self) -> String {
        format!("zero_len_data_pdus={}", self.zero_len)
    }
}

// ------------------------------------------------------------------------------------------
/// C08: receiver NAKs are well-formed and ask for exactly what is missing.
#[derive(Default)]
pub struct C08 {
    d: Deliv,
    prev_q: Vec<(u64, u64)>,
    /// Immediate(delay>0): gaps waiting for their delay (gap, due ms)
    pending: Vec<((u64, u64), u64)>,
    size_known: Option<u64>,
    meta_at_fill: bool,
    eof_at: Option<u64>,
}
fn qbits(q: &[(u64, u64)]) -> u128 {
    q.iter().fold(0, |m, r| m | bits(r.0, r.1))
}
impl Monitor for C08 {
    fn step(&mut self, rec: &StepRec, ctx: &mut Ctx) {
        let scn = ctx.scn;
        if !scn.ack {
            return;
        }
        let before = self.d.clone();
        self.d.step(rec);
        if let Some((Side::R, p)) = &rec.delivered {
            match op_of(p) {
                Some(Operations::Metadata(m)) => self.size_known = self.size_known.or(Some(m.file_size)),
                Some(Operations::EoF(e)) if e.condition == Condition::NoError => self.size_known = Some(e.file_size),
                _ => {}
            }
        }
        let now_ms = rec.obs.now.as_millis() as u64;
        let fss = 4u64;
        if before.eof.is_none() && self.d.eof.is_some() {
            self.eof_at = Some(now_ms);
        }
        // was the request queue (re)computed in this step? (anything but popping from its front)
        let refilled_now = {
            let q = &rec.obs.r_naks;
            !(q.len() <= self.prev_q.len() && self.prev_q[self.prev_q.len() - q.len()..] == q[..])
        } || (before.prompt_pending && matches!(rec.ev, Ev::Send(Side::R)));
        // metadata state when the requests now being sent were computed
        let meta_when_computed = if refilled_now { before.meta } else { self.meta_at_fill };
        // ---- every NAK PDU is well-formed
        for (side, p) in &rec.out {
            if *side != Side::R {
                continue;
            }
            if let Some(Operations::Nak(n)) = op_of(p) {
                ctx.arm("nak-pdu");
                for r in &n.segment_requests {
                    let marker = r.start_offset == 0 && r.end_offset == 0;
                    if marker {
                        // a request computed while metadata was missing may go out after it arrived
                        // (the queue is not re-filtered); computing it with metadata present is wrong
                        if meta_when_computed {
                            ctx.flag("marker-with-metadata-present", "", "a NAK carries the 0-0 metadata marker although metadata had been received when the request list was computed");
                        }
                        continue;
                    }
                    if r.start_offset >= r.end_offset {
                        ctx.flag("empty-or-inverted-request", "", format!("NAK {} contains the request {}..{}", pdu_brief(p), r.start_offset, r.end_offset));
                    }
                    if r.start_offset < n.start_of_scope || r.end_offset > n.end_of_scope {
                        ctx.flag("request-outside-scope", "", format!("NAK {} has a request outside its scope", pdu_brief(p)));
                    }
                    if let Some(sz) = self.size_known {
                        if r.end_offset > sz {
                            ctx.flag("request-outside-file", "", format!("NAK {} asks beyond the file size {}", pdu_brief(p), sz));
                        }
                    }
                }
                if p.header.pdu_data_field_length as u64 > fss + scn.seg as u64 {
                    ctx.flag("nak-too-large", "", format!("NAK data field is {} bytes, the configured maximum is {}", p.header.pdu_data_field_length, fss + scn.seg as u64));
                }
                if !scn.nak_immediate && before.eof.is_none() && !before.prompt {
                    ctx.flag("unsolicited-nak-before-eof", "", format!("deferred procedure: {} was sent before EOF and without a prompt", pdu_brief(p)));
                }
            }
        }
        if refilled_now {
            self.meta_at_fill = self.d.meta;
        }
        if rec.obs.r_life != Life::Active {
            self.prev_q = rec.obs.r_naks.clone();
            return;
        }
        // ---- fill-time oracle: whenever the queue is (re)computed after EOF it must hold
        // precisely what is missing now
        let q = &rec.obs.r_naks;
        let is_suffix = q.len() <= self.prev_q.len() && self.prev_q[self.prev_q.len() - q.len()..] == q[..];
        let sent_nak = rec.out.iter().any(|(s, p)| *s == Side::R && matches!(op_of(p), Some(Operations::Nak(_))));
        // a queue that got shorter without a NAK going out was rewritten, not drained: it is judged
        // like a freshly computed one. (What a send step removes need not be what it sends: the
        // answer to a prompt recomputes the list first.)
        let shrunk = is_suffix && q.len() < self.prev_q.len();
        let shrunk_silently = shrunk && !sent_nak && rec.obs.r_sub == "ReceiveData";
        let refilled = !is_suffix || shrunk_silently;
        if let Some(size) = self.d.eof {
            let missing = self.d.missing(size);
            let meta_missing = !self.d.meta;
            if refilled {
                ctx.arm("queue-filled-after-eof");
                // what was sent in this very step (answer to a prompt) counts as part of the list
                let mut all: Vec<(u64, u64)> = q.clone();
                for (s, p) in &rec.out {
                    if *s == Side::R {
                        if let Some(Operations::Nak(n)) = op_of(p) {
                            all.extend(n.segment_requests.iter().map(|r| (r.start_offset, r.end_offset)));
                        }
                    }
                }
                let got = qbits(&all);
                let marker = all.iter().any(|r| r.0 == 0 && r.1 == 0);
                // with a NAK delay the list is filled window by window: the check of a single gap may
                // fall due before the whole-file check that EOF scheduled; each filling must ask only
                // for missing bytes, and from the moment the whole-file check is due, for all of them
                let partial_ok = scn.nak_delay_s > 0 && now_ms < self.eof_at.unwrap_or(0) + scn.nak_delay_s * 1000;
                if partial_ok {
                    if got & !missing != 0 {
                        ctx.flag("requests-not-exactly-missing", "asks-for-held-bytes", format!("the receiver computed the requests {:?} but only {:?} is missing", all, runs(missing, size)));
                    }
                } else if got != missing {
                    ctx.flag(
                        "requests-not-exactly-missing",
                        if got & !missing != 0 { "asks-for-held-bytes" } else { "leaves-out-missing-bytes" },
                        format!("after EOF the receiver computed the requests {:?} but the bytes not yet received are {:?}", all, runs(missing, size)),
                    );
                }
                if marker != meta_missing && !(partial_ok && !marker) {
                    ctx.flag("requests-not-exactly-missing", format!("marker={} meta_missing={}", marker, meta_missing), format!("requests {:?}, metadata missing: {}", all, meta_missing));
                }
            }
            // EOF just arrived with something missing: ask now (delay 0) — never finish instead
            let eof_now = before.eof.is_none();
            if (missing != 0 && scn.file_size.is_some() || meta_missing) && rec.obs.r_sub == "Finished" {
                ctx.flag("finished-while-missing", format!("meta_missing={}", meta_missing), format!("the receiver moved to Finished although {:?} / metadata missing={} ", runs(missing, size), meta_missing));
            }
            if eof_now && scn.nak_delay_s == 0 && (missing != 0 || meta_missing) && rec.obs.r_sub == "ReceiveData" {
                ctx.arm("eof-with-gaps");
                if q.is_empty() {
                    ctx.flag("no-request-after-eof", "", format!("EOF arrived, {:?} is missing (metadata missing: {}), but nothing is queued for a NAK", runs(missing, size), meta_missing));
                }
            }
        } else if scn.nak_immediate {
            // ---- immediate procedure before EOF: a newly opened gap is requested
            if let Some((Side::R, p)) = &rec.delivered {
                if let Some((o, dd)) = data_of(p) {
                    if !dd.is_empty() && o > before.max_end {
                        ctx.arm("new-gap");
                        let gap = (before.max_end, o);
                        if scn.nak_delay_s == 0 {
                            if qbits(q) & bits(gap.0, gap.1) != bits(gap.0, gap.1) {
                                ctx.flag("new-gap-not-requested", "delay0", format!("data at {} opened the gap {:?} but the queue is {:?}", o, gap, q));
                            }
                        } else {
                            self.pending.push((gap, now_ms + scn.nak_delay_s * 1000));
                        }
                    }
                }
            }
        }
        // delayed checks of gaps opened before EOF fall due whether or not EOF has arrived meanwhile
        if let Ev::Timeout(Side::R, _) = rec.ev {
            let due: Vec<_> = self.pending.iter().filter(|(_, t)| *t <= now_ms).cloned().collect();
            self.pending.retain(|(_, t)| *t > now_ms);
            for (gap, t_due) in due {
                ctx.arm("delayed-gap-due");
                // the receiver's loop wakes at its earliest timer: a check that is due is serviced then
                if now_ms > t_due + 1 {
                    ctx.flag("delayed-gap-check-late", "", format!("the delayed check of the gap {:?} was due at {} ms but was serviced at {} ms", gap, t_due, now_ms));
                }
                let still = bits(gap.0, gap.1) & !self.d.held;
                if qbits(q) & still != still && rec.obs.r_sub == "ReceiveData" {
                    ctx.flag("new-gap-not-requested", "delayed", format!("the gap {:?} persisted for the configured delay but the queue is {:?}", gap, q));
                }
            }
        }
        self.prev_q = q.clone();
    }
    fn key(&self) -> String {
        // pending due times relative to now are implied by the receiver's own delayed timers
        format!("{} {:?} {:?} {:?} {}", self.d.key(), self.prev_q, self.pending.iter().map(|p| p.0).collect::<Vec<_>>(), self.size_known, self.meta_at_fill)
    }
}

// ------------------------------------------------------------------------------------------
/// C17: limit faults fire after exactly the configured expirations; the set handler runs.
#[derive(Default)]
pub struct C17 {
    d: Deliv,
    /// instants (virtual ms) of the transmissions of the PDU whose acknowledgement is awaited
    eof_tx: Vec<u64>,
    fin_tx: Vec<u64>,
    /// distinct instants at which NAK PDUs went out since the receiver last got new file data
    nak_tx: Vec<u64>,
    last_rx_s: Option<u64>,
    last_rx_r: Option<u64>,
    r_created: Option<u64>,
    held_prev: u128,
    /// a fault with handler Abandon / Suspend was declared: nothing may be transmitted after it
    silenced_s: bool,
    silenced_r: bool,
    now: u64,
    cap: u64,
    last_eof: Vec<u8>,
    last_fin: Vec<u8>,
}
fn action_for(scn: &Scenario, c: Condition) -> u8 {
    scn.handlers.iter().find(|(code, _)| *code == c as u8).map(|(_, a)| *a).unwrap_or(0)
}
impl Monitor for C17 {
    fn step(&mut self, rec: &StepRec, ctx: &mut Ctx) {
        let scn = ctx.scn;
        let now = rec.obs.now.as_millis() as u64;
        let n = scn.max_count as u64;
        self.now = now;
        self.cap = (n + 1) * [scn.t_inact, scn.t_ack, scn.t_nak].into_iter().max().unwrap() as u64 * 1000;
        self.d.step(rec);
        if self.r_created.is_none() && rec.obs.r_life != Life::NotCreated {
            self.r_created = Some(now);
        }
        if let Some((to, p)) = &rec.delivered {
            match to {
                Side::S => {
                    self.last_rx_s = Some(now);
                    if let Some(Operations::Ack(a)) = op_of(p) {
                        if a.directive == cfdp_core::pdu::PDUDirective::EoF {
                            self.eof_tx.clear();
                        }
                    }
                }
                Side::R => {
                    self.last_rx_r = Some(now);
                    if matches!(op_of(p), Some(Operations::Ack(_))) || matches!(op_of(p), Some(Operations::EoF(e)) if e.condition != Condition::NoError) {
                        // answered — or an EOF (cancel) to which the receiver replies with a
                        // fresh Finished, which is not a timer retransmission
                        self.fin_tx.clear();
                    }
                    if self.d.held != self.held_prev {
                        self.held_prev = self.d.held;
                        self.nak_tx.clear(); // new file data: the NAK count starts again
                    }
                }
            }
        }
        // user resume re-arms everything: forget the history
        if let Ev::User(side, UserOp::Resume) = rec.ev {
            match side {
                Side::S => {
                    self.eof_tx.clear();
                    self.last_rx_s = Some(now);
                    self.silenced_s = false;
                }
                Side::R => {
                    self.fin_tx.clear();
                    self.nak_tx.clear();
                    self.last_rx_r = Some(now);
                    self.silenced_r = false;
                }
            }
        }
        for (side, p) in &rec.out {
            let silenced = if *side == Side::S { self.silenced_s } else { self.silenced_r };
            if silenced {
                ctx.flag("pdu-after-abandon-or-suspend", format!("{:?}|{}", side, pdu_kind(p)), format!("{:?} transmitted {} after a fault whose handler is Abandon/Suspend", side, pdu_brief(p)));
            }
            match (side, op_of(p)) {
                (Side::S, Some(Operations::EoF(_))) => {
                    let bytes = cfdp_core::pdu::PDUEncode::encode(p.clone());
                    if bytes != self.last_eof {
                        self.eof_tx.clear(); // a different EOF (e.g. the cancel one): a first transmission
                        self.last_eof = bytes;
                    }
                    if let Some(last) = self.eof_tx.last() {
                        ctx.arm("retransmission");
                        if now - last < scn.t_ack as u64 * 1000 {
                            ctx.flag("retransmission-early", "S|EOF", format!("EOF retransmitted {} ms after the previous transmission; the ack timeout is {} s", now - last, scn.t_ack));
                        }
                    }
                    self.eof_tx.push(now);
                }
                (Side::R, Some(Operations::Finished(_))) => {
                    let bytes = cfdp_core::pdu::PDUEncode::encode(p.clone());
                    if bytes != self.last_fin {
                        self.fin_tx.clear(); // a different Finished (e.g. after a fault): a first transmission
                        self.last_fin = bytes;
                    }
                    if let Some(last) = self.fin_tx.last() {
                        ctx.arm("retransmission");
                        if now - last < scn.t_ack as u64 * 1000 {
                            ctx.flag("retransmission-early", "R|Finished", format!("Finished retransmitted {} ms after the previous transmission; the ack timeout is {} s", now - last, scn.t_ack));
                        }
                    }
                    self.fin_tx.push(now);
                }
                (Side::R, Some(Operations::Nak(_))) => {
                    if self.nak_tx.last() != Some(&now) {
                        self.nak_tx.push(now);
                    }
                }
                _ => {}
            }
        }
        for (side, i) in &rec.inds {
            let Indication::Fault(f) = i else { continue };
            ctx.arm("fault");
            let c = f.condition;
            // ---- the condition named is that of the timer: the action configured for *that*
            // condition is what the user asked for. A check limit exists only for an
            // unacknowledged sender waiting for the closure; NAK and positive-ack limits only
            // in acknowledged mode.
            let plausible = match c {
                Condition::CheckLimitReached => *side == Side::S && !scn.ack && scn.closure,
                Condition::NakLimitReached => *side == Side::R && scn.ack,
                Condition::PositiveLimitReached => scn.ack,
                _ => true,
            };
            if !plausible {
                ctx.flag("fault-condition-wrong", format!("{:?}|{:?}", side, c), format!("{:?} declared {:?} in {} mode{}: no such limit exists there, the expiry belongs to another timer (and so does the configured action)", side, c, if scn.ack { "acknowledged" } else { "unacknowledged" }, if scn.closure { " with closure" } else { "" }));
            }
            // ---- never earlier than the configured number of expirations
            let (first, count, t, what): (Option<u64>, Option<usize>, i64, &str) = match (side, c) {
                (Side::S, Condition::PositiveLimitReached) => (self.eof_tx.first().copied(), Some(self.eof_tx.len()), scn.t_ack, "EOF transmissions"),
                (Side::R, Condition::PositiveLimitReached) => (self.fin_tx.first().copied(), Some(self.fin_tx.len()), scn.t_ack, "Finished transmissions"),
                (Side::R, Condition::NakLimitReached) => (self.nak_tx.first().copied(), Some(self.nak_tx.len()), scn.t_nak, "NAK rounds"),
                (Side::S, Condition::InactivityDetected) | (Side::S, Condition::CheckLimitReached) => (self.last_rx_s.or(self.eof_tx.first().copied()), None, scn.t_inact, ""),
                (Side::R, Condition::InactivityDetected) => (self.last_rx_r.or(self.r_created), None, scn.t_inact, ""),
                _ => (None, None, 0, ""),
            };
            if *side == Side::R && c == Condition::NakLimitReached && self.nak_tx.is_empty() {
                // new file data resets the count, and a count that restarts needs a NAK of its own
                // before it can reach any limit
                ctx.flag("limit-fault-after-progress", "R|NakLimitReached", "the receiver declared NakLimitReached although file data has arrived since its last NAK and no NAK has gone out since (progress resets the count)");
            }
            if let Some(first) = first {
                let need = n * t as u64 * 1000;
                if now - first < need {
                    ctx.flag(
                        "limit-fault-early",
                        format!("{:?}|{:?}", side, c),
                        format!("{:?} declared {:?} {} ms after {}; {} expirations of {} s are required", side, c, now - first, if count.is_some() { "the first unanswered transmission" } else { "the last PDU it received" }, n, t),
                    );
                }
            }
            if let Some(cnt) = count {
                if cnt as u64 != n && first.is_some() {
                    ctx.flag("retransmission-count", format!("{:?}|{:?}|{}", side, c, if (cnt as u64) < n { "fewer" } else { "more" }), format!("{:?} declared {:?} after {} {}; the limit is {}", side, c, cnt, what, n));
                }
            }
            // ---- the configured action is the one taken
            let act = action_for(scn, c);
            let life = rec.obs.life(*side);
            let sub = if *side == Side::S { rec.obs.s_sub } else { rec.obs.r_sub };
            let abandon_ind = rec.inds.iter().any(|(s2, i2)| s2 == side && matches!(i2, Indication::Abandon(_)));
            let susp_ind = rec.inds.iter().any(|(s2, i2)| s2 == side && matches!(i2, Indication::Suspended(_)));
            let ok = match act {
                // cancel: the cancel handshake starts (the receiver announces it with a Finished
                // indication carrying the fault condition; its internal sub-state is not observable)
                0 => {
                    (life == Life::Active || life == Life::Terminated)
                        && !abandon_ind
                        && !susp_ind
                        && match side {
                            Side::S => sub == "Cancelled",
                            Side::R => rec.inds.iter().any(|(s2, i2)| *s2 == Side::R && matches!(i2, Indication::Finished(ff) if ff.report.condition == c)),
                        }
                }
                1 => life == Life::Suspended && susp_ind && sub != "Cancelled",
                2 => life == Life::Active && sub != "Cancelled" && !abandon_ind && !susp_ind,
                _ => life == Life::Terminated && abandon_ind,
            };
            if !ok {
                ctx.flag(
                    "wrong-fault-action",
                    format!("{:?}|{:?}|configured={}", side, c, ["cancel", "suspend", "ignore", "abandon"][act.min(3) as usize]),
                    format!("{:?} declared {:?}; the configured action is {} but afterwards life={:?} sub-state={} abandon-indication={} suspended-indication={}", side, c, ["cancel", "suspend", "ignore", "abandon"][act.min(3) as usize], life, sub, abandon_ind, susp_ind),
                );
            }
            if act == 1 || act == 3 {
                match side {
                    Side::S => self.silenced_s = true,
                    Side::R => self.silenced_r = true,
                }
            }
        }
    }
    fn key(&self) -> String {
        // instants relative to the latest one are what matters for the future verdicts
        // only "has at least N periods passed" is ever asked: saturate, so that scenarios which
        // go on forever (Ignore handlers) close into a cycle instead of growing
        let cap = self.cap;
        let rel = |v: &Vec<u64>, now: u64| v.iter().map(|t| (now - t).min(cap)).collect::<Vec<_>>();
        let now = self.now;
        format!(
            "{} {} {} {:?} {:?} {:?} {:?} {:?} {}{}",
            self.d.key(),
            crate::common::hex(&self.last_eof),
            crate::common::hex(&self.last_fin),
            rel(&self.eof_tx, now),
            rel(&self.fin_tx, now),
            rel(&self.nak_tx, now),
            self.last_rx_s.map(|t| (now - t).min(cap)),
            self.last_rx_r.map(|t| (now - t).min(cap)),
            self.silenced_s,
            self.silenced_r
        )
    }
}

// ------------------------------------------------------------------------------------------
/// C13 (transaction level): filestore requests run once, in order, only after a successful
/// delivery, and the same responses reach both users and the Finished PDU.
/// The scenario's request list is fixed (see props_e1::c13_scenarios):
///   create new1; append log2 to log1 (non-idempotent); delete nope (fails); rename log2 -> log3
#[derive(Default)]
pub struct C13 {
    r_success: bool,
    r_resp: Option<Vec<String>>,
    fin_delivered: Option<Vec<String>>,
}
fn side_files(root: &std::collections::BTreeMap<String, Option<Vec<u8>>>) -> Vec<(String, Option<String>)> {
    root.iter().filter(|(k, _)| k.as_str() != DST_NAME).map(|(k, v)| (k.clone(), v.as_ref().map(|b| String::from_utf8_lossy(b).to_string()))).collect()
}
fn c13_initial() -> Vec<(String, Option<String>)> {
    vec![("log1".into(), Some("A".into())), ("log2".into(), Some("B".into()))]
}
fn c13_final() -> Vec<(String, Option<String>)> {
    vec![("log1".into(), Some("AB".into())), ("log2".into(), Some("B".into())), ("new1".into(), Some("".into()))]
}
fn c13_expected() -> Vec<String> {
    vec!["CreateFile(Successful)".into(), "AppendFile(Successful)".into(), "DeleteFile(FileDoesNotExist)".into(), "RenameFile(NotPerformed)".into()]
}
fn statuses(r: &[cfdp_core::pdu::FileStoreResponse]) -> Vec<String> {
    r.iter().map(|x| format!("{:?}", x.action_and_status)).collect()
}
impl Monitor for C13 {
    fn step(&mut self, rec: &StepRec, ctx: &mut Ctx) {
        let scn = ctx.scn;
        for (side, i) in &rec.inds {
            if let Indication::Finished(f) = i {
                let st = statuses(&f.filestore_responses);
                match side {
                    Side::R => {
                        ctx.arm("receiver-finished");
                        let ok = is_success(scn, &(f.report.condition, f.delivery_code, f.file_status));
                        if ok {
                            if !self.r_success {
                                self.r_success = true;
                                if st != c13_expected() {
                                    ctx.flag("responses-wrong", format!("{:?}", st), format!("the receiver reported the responses {:?}; the request list on this filestore gives {:?}", st, c13_expected()));
                                }
                            }
                        } else if st.iter().any(|s| !s.contains("NotPerformed")) {
                            ctx.flag("requests-run-without-success", format!("{:?}", f.report.condition), format!("the delivery was not successful ({:?}/{:?}) but the receiver reports executed requests {:?}", f.report.condition, f.delivery_code, st));
                        }
                        if self.r_resp.is_none() || ok {
                            self.r_resp = Some(st);
                        }
                    }
                    Side::S => {
                        ctx.arm("sender-finished");
                        if let Some(fd) = &self.fin_delivered {
                            if &st != fd {
                                ctx.flag("sender-responses-differ", "", format!("the sender reports the responses {:?} but the Finished PDU it received carried {:?}", st, fd));
                            }
                        }
                    }
                }
            }
        }
        for (side, p) in &rec.out {
            if let (Side::R, Some(Operations::Finished(f))) = (side, op_of(p)) {
                ctx.arm("finished-pdu");
                let st = statuses(&f.filestore_response);
                if f.condition == Condition::NoError {
                    if let Some(r) = &self.r_resp {
                        if &st != r {
                            ctx.flag("pdu-responses-differ", "", format!("the Finished PDU carries the responses {:?} but the receiver told its user {:?}", st, r));
                        }
                    }
                }
            }
        }
        if let Some((Side::S, p)) = &rec.delivered {
            if let Some(Operations::Finished(f)) = op_of(p) {
                self.fin_delivered = Some(statuses(&f.filestore_response));
            }
        }
        // effects: nothing before (or without) a successful delivery, everything exactly once after
        let files = side_files(&rec.obs.r_root);
        let want = if self.r_success { c13_final() } else { c13_initial() };
        if files != want {
            ctx.flag(
                if self.r_success { "effects-not-exactly-once" } else { "effects-before-success" },
                format!("{:?}", files),
                format!("filestore (besides the destination) is {:?}, expected {:?} (receiver success reported: {})", files, want, self.r_success),
            );
        }
    }
    fn key(&self) -> String {
        format!("{} {:?} {:?}", self.r_success, self.r_resp, self.fin_delivered)
    }
    fn outcome(&self) -> String {
        format!("r_ok={}", self.r_success)
    }
}

// ------------------------------------------------------------------------------------------
/// C09 at protocol level: the receiver's account of the bytes it holds (segment list, progress,
/// completeness verdict) equals the set union of the file data PDUs handed to it — also when a
/// peer sends data beyond the size it announces in its EOF.
#[derive(Default)]
pub struct C09 {
    held: u128,
    eof: Option<u64>,
    meta: bool,
    prev_life: Option<Life>,
    /// the receiver has left its receiving phase (what it does with later data is not compared)
    frozen: bool,
}
impl Monitor for C09 {
    fn step(&mut self, rec: &StepRec, ctx: &mut Ctx) {
        if let Some((Side::R, p)) = &rec.delivered {
            if self.prev_life == Some(Life::Dead) {
                // a fresh receive transaction took over (the old task had died of an error)
                *self = C09::default();
            }
            if !self.frozen {
                if let Some((o, d)) = data_of(p) {
                    self.held |= bits(o, o + d.len() as u64);
                }
                match op_of(p) {
                    Some(Operations::Metadata(_)) => self.meta = true,
                    Some(Operations::EoF(e)) if e.condition == Condition::NoError && self.eof.is_none() => self.eof = Some(e.file_size),
                    _ => {}
                }
            }
        }
        let receiving = rec.obs.r_life.live() && rec.obs.r_sub == "ReceiveData";
        if receiving && !self.frozen {
            ctx.arm("account-compared");
            let want = runs(self.held, 127);
            if rec.obs.r_segments != want {
                ctx.flag("segment-list-differs", "", format!("the receiver's segment list is {:?} but the union of the file data handed to it is {:?}", rec.obs.r_segments, want));
            }
            let n = self.held.count_ones() as u64;
            if rec.obs.r_progress != n {
                ctx.flag("progress-differs", if rec.obs.r_progress > n { "over" } else { "under" }, format!("the receiver counts {} bytes received but holds {} distinct bytes", rec.obs.r_progress, n));
            }
            // complete (metadata, EOF and every byte of [0,n) held) and still waiting
            if ctx.scn.ack && ctx.scn.handlers.is_empty() {
                if let Some(sz) = self.eof {
                    if self.meta && bits(0, sz) & !self.held == 0 && sz < 127 {
                        ctx.flag("complete-not-recognised", "", format!("metadata, EOF(size {}) and every byte of [0,{}) are held but the receiver is still in its receiving phase", sz, sz));
                    }
                }
            }
        }
        if rec.obs.r_life != Life::NotCreated && !receiving {
            // judged once, in the step that ends the receiving phase
            if !self.frozen {
                for (side, i) in &rec.inds {
                    if *side != Side::R {
                        continue;
                    }
                    if let Some((c, d, _)) = fin_of(i) {
                        if c == Condition::NoError && d == DeliveryCode::Complete {
                            ctx.arm("complete-verdict");
                            let missing = self.eof.map(|sz| bits(0, sz) & !self.held);
                            match missing {
                                Some(0) => {}
                                Some(m) => ctx.flag("complete-with-hole", "", format!("the receiver reported a complete delivery of {} bytes although it holds only {:?}: {:?} is missing", self.eof.unwrap(), runs(self.held, 127), runs(m, 127))),
                                None => ctx.flag("complete-without-eof", "", "the receiver reported a complete delivery without having received an EOF(NoError)".to_string()),
                            }
                        }
                    }
                }
            }
            self.frozen = true;
        }
        self.prev_life = Some(rec.obs.r_life);
    }
    fn key(&self) -> String {
        format!("{:x}/{:?}/{}/{:?}/{}", self.held, self.eof, self.meta, self.prev_life, self.frozen)
    }
}
