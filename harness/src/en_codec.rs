//! C05 — E4: encode/decode round trip over complete product grids of well-formed values.
//!
//! Enumerated: every case of every grid of `en_corpus::groups(tier)` (header flags x id widths x
//! id values x lengths; every directive with every value of every discrete field; boundary
//! numbers per file-size flag; strings / LV bodies of {0,1,254,255} bytes; all orders of up to
//! 3 (quick: 2) TLVs over the 6 kinds; NAK lists of {0,1,2,max}; every `UserOperation` variant,
//! the ones with private fields decode-first; `Report`).  Each payload case is checked at the
//! `Operations` / `FileDataPDU` level and again as a whole PDU under every header variant
//! (CRC x entity-id width x sequence width x flag set).  The grids are finite and every index
//! is visited, so the described space is covered exhaustively.
//!
//! Oracle per case (each step under `catch_unwind`):
//!   encode-len : `encoded_len(v) == encode(v).len()`
//!   roundtrip  : `decode(encode(v)) == v`
//!   whole PDUs additionally — length-field: octets 1..3 of the encoding equal the payload
//!   length (+2 with a CRC); consume: `PDU::decode` stops exactly at the end of the encoding
//!   user operations additionally — embedded: the operation carried as a message-to-user TLV of
//!   a metadata PDU comes back equal (only when its encoding fits the 255-byte TLV body).
use crate::common::*;
use crate::en_alloc::{catch_loc, install_panic_recorder, Panicked};
use crate::en_corpus::*;
use cfdp_core::{daemon::Report as StatusReport, filestore::ChecksumType, pdu::*};
use rayon::prelude::*;
use serde_json::{json, Value};
use std::collections::BTreeMap;
use std::fmt::Debug;
use std::hash::{Hash, Hasher};

/// one failed clause of one case
pub struct Fail {
    pub clause: &'static str,
    /// root-cause class (joined with clause and group kind into the signature)
    pub class: String,
    pub detail: String,
}

fn digits_to_hash(s: &str) -> String {
    // numbers are case data, not causes: collapse every digit run to '#'
    let mut out = String::new();
    let mut in_num = false;
    for ch in s.chars() {
        if ch.is_ascii_digit() {
            if !in_num {
                out.push('#');
            }
            in_num = true;
        } else {
            in_num = false;
            out.push(ch);
        }
    }
    out
}
pub fn panic_class(p: &Panicked) -> String {
    // file without the line number: the identity of a finding must survive unrelated edits
    format!("{}|{}", p.loc.split(':').next().unwrap_or("?"), digits_to_hash(&p.msg))
}
fn trunc(s: &str, n: usize) -> String {
    if s.len() <= n {
        s.to_string()
    } else {
        let mut e = n;
        while !s.is_char_boundary(e) {
            e -= 1;
        }
        format!("{}…[{} bytes]", &s[..e], s.len())
    }
}

/// Reduce "expected vs got" (their `Debug` texts) to the first field that differs and how:
/// `field=<name>|<token expected>-><token got>`, numbers collapsed to '#'.
pub fn diff_class(exp: &str, got: &str) -> String {
    let (a, b) = (exp.as_bytes(), got.as_bytes());
    let mut i = 0;
    while i < a.len() && i < b.len() && a[i] == b[i] {
        i += 1;
    }
    let is_tok = |c: u8| c.is_ascii_alphanumeric() || c == b'_';
    let token = |s: &[u8]| -> String {
        let mut st = i.min(s.len());
        while st > 0 && is_tok(s[st - 1]) {
            st -= 1;
        }
        let mut en = i.min(s.len());
        while en < s.len() && is_tok(s[en]) {
            en += 1;
        }
        let t = String::from_utf8_lossy(&s[st..en]).to_string();
        if t.is_empty() {
            "-".into()
        } else if t.bytes().all(|c| c.is_ascii_digit()) {
            "#".into()
        } else {
            t
        }
    };
    // nearest "name: " to the left of the difference
    let mut st = i.min(a.len());
    while st > 0 && is_tok(a[st - 1]) {
        st -= 1;
    }
    let left = &a[..st];
    let field = (0..left.len().saturating_sub(1))
        .rev()
        .find(|&k| left[k] == b':' && left[k + 1] == b' ')
        .map(|k| {
            let mut s = k;
            while s > 0 && is_tok(left[s - 1]) {
                s -= 1;
            }
            String::from_utf8_lossy(&left[s..k]).to_string()
        })
        .unwrap_or_else(|| "-".into());
    format!("field={}|{}->{}", field, token(a), token(b))
}

fn err_class(e: &PDUError) -> String {
    let d = format!("{:?}", e);
    d.split(|c: char| !c.is_ascii_alphanumeric()).next().unwrap_or("Err").to_string()
}

/// the generic three-step check; returns the encoding
fn round_trip<T: Clone + PartialEq + Debug>(
    v: &T,
    len: impl FnOnce(&T) -> u16,
    enc: impl FnOnce(T) -> Vec<u8>,
    dec: impl FnOnce(&mut &[u8]) -> PDUResult<T>,
    whole_pdu: bool,
    fails: &mut Vec<Fail>,
) -> Option<Vec<u8>> {
    let bytes = match catch_loc(|| enc(v.clone())) {
        Ok(b) => b,
        Err(p) => {
            fails.push(Fail { clause: "encode-panic", class: panic_class(&p), detail: format!("encode panicked at {}: {}", p.loc, p.msg) });
            return None;
        }
    };
    match catch_loc(|| len(v)) {
        Ok(n) if n as usize == bytes.len() => {}
        Ok(n) => fails.push(Fail {
            clause: "encode-len",
            // the amount depends on how many offending components the value holds; the cause
            // is identified by the direction
            class: if (n as usize) < bytes.len() { "announced-too-short".into() } else { "announced-too-long".into() },
            detail: format!("encoded_len() = {} but encode() produced {} bytes", n, bytes.len()),
        }),
        Err(p) => fails.push(Fail {
            clause: "encode-len",
            class: format!("panic|{}", panic_class(&p)),
            detail: format!("encoded_len() panicked at {}: {} (encode() produced {} bytes)", p.loc, p.msg, bytes.len()),
        }),
    }
    let mut rd: &[u8] = &bytes;
    match catch_loc(|| {
        let r = dec(&mut rd);
        (r, rd.len())
    }) {
        Ok((Ok(back), rest)) => {
            if &back != v {
                let (e, g) = (format!("{:?}", v), format!("{:?}", back));
                fails.push(Fail { clause: "roundtrip", class: diff_class(&e, &g), detail: format!("encoded : {}\ndecoded : {}", trunc(&e, 600), trunc(&g, 600)) });
            } else if whole_pdu && rest != 0 {
                fails.push(Fail { clause: "consume", class: "trailing".into(), detail: format!("PDU::decode left {} of {} bytes unread", rest, bytes.len()) });
            }
        }
        Ok((Err(e), _)) => fails.push(Fail { clause: "roundtrip", class: format!("decode-err|{}", err_class(&e)), detail: format!("decode of the encoding failed: {}", e) }),
        Err(p) => fails.push(Fail { clause: "roundtrip", class: format!("decode-panic|{}", panic_class(&p)), detail: format!("decode panicked at {}: {}", p.loc, p.msg) }),
    }
    Some(bytes)
}

fn report_eq(a: &StatusReport, b: &StatusReport) -> bool {
    a.id == b.id && a.state == b.state && a.status == b.status && a.condition == b.condition
}

fn check_userop(op: &UserOperation, fails: &mut Vec<Fail>) -> Option<Vec<u8>> {
    let before = fails.len();
    let bytes = round_trip(op, |v| v.encoded_len(), |v| v.encode(), |b| UserOperation::decode(b), false, fails)?;
    // the way the daemon ships it: message-to-user TLV of a metadata PDU (skipped when the bare
    // round trip already failed: same cause)
    if bytes.len() <= 255 && fails.len() == before {
        let r = catch_loc(|| -> Result<UserOperation, String> {
            let payload = PDUPayload::Directive(Operations::Metadata(MetadataPDU {
                closure_requested: false,
                checksum_type: ChecksumType::Modular,
                file_size: 1,
                source_filename: "s".into(),
                destination_filename: "d".into(),
                options: vec![MetadataTLV::MessageToUser(MessageToUser::from(op.clone()))],
            }));
            let hv = Hv { crc: CRCFlag::Present, idw: 2, seqw: 4, misc: 0 };
            let pdu = wrap(payload, FileSizeFlag::Small, SegmentedData::NotPresent, hv).unwrap();
            let back = PDU::decode(&mut pdu.encode().as_slice()).map_err(|e| format!("PDU::decode: {}", e))?;
            match back.payload {
                PDUPayload::Directive(Operations::Metadata(m)) => match m.options.first() {
                    Some(MetadataTLV::MessageToUser(msg)) => UserOperation::decode(&mut msg.message_text.as_slice()).map_err(|e| format!("UserOperation::decode: {}", e)),
                    o => Err(format!("unexpected option {:?}", o)),
                },
                o => Err(format!("unexpected payload {:?}", o)),
            }
        });
        match r {
            Ok(Ok(back)) if &back == op => {}
            Ok(Ok(back)) => {
                let (e, g) = (format!("{:?}", op), format!("{:?}", back));
                fails.push(Fail { clause: "embedded", class: diff_class(&e, &g), detail: format!("sent    : {}\nreceived: {}", trunc(&e, 600), trunc(&g, 600)) });
            }
            Ok(Err(e)) => fails.push(Fail { clause: "embedded", class: "decode-err".into(), detail: e }),
            Err(p) => fails.push(Fail { clause: "embedded", class: format!("panic|{}", panic_class(&p)), detail: format!("panicked at {}: {}", p.loc, p.msg) }),
        }
    }
    Some(bytes)
}

/// Check one value. Returns (encoding if it could be produced, well-formed?, failures).
/// `well-formed` is false only for decode-first images the decoder rejects (nothing to check).
pub fn check(val: &Val) -> (Option<Vec<u8>>, bool, Vec<Fail>) {
    let mut fails = vec![];
    let bytes = match val {
        Val::Header(h) => round_trip(h, |v| v.encoded_len(), |v| v.encode(), |b| PDUHeader::decode(b), false, &mut fails),
        Val::Payload(PDUPayload::Directive(op), fss, _) => {
            round_trip(op, |v| v.encoded_len(*fss), |v| v.encode(*fss), |b| Operations::decode(b, *fss), false, &mut fails)
        }
        Val::Payload(PDUPayload::FileData(fd), fss, seg) => {
            round_trip(fd, |v| v.encoded_len(*fss), |v| v.encode(*fss), |b| FileDataPDU::decode(b, *seg, *fss), false, &mut fails)
        }
        Val::Pdu(p) => {
            let b = round_trip(p, |v| v.encoded_len(), |v| v.encode(), |b| PDU::decode(b), true, &mut fails);
            if let Some(b) = &b {
                let announced = u16::from_be_bytes([b[1], b[2]]) as usize;
                let hdr = 4 + 2 * p.header.source_entity_id.encoded_len() as usize + p.header.transaction_sequence_number.encoded_len() as usize;
                // what follows the header is exactly what the length field must announce
                // (payload, plus the two CRC octets when present)
                if announced != b.len() - hdr {
                    fails.push(Fail {
                        clause: "length-field",
                        class: if announced < b.len() - hdr { "announced-too-short".into() } else { "announced-too-long".into() },
                        detail: format!("header announces {} bytes, {} follow the {}-byte header", announced, b.len() - hdr, hdr),
                    });
                }
            }
            b
        }
        Val::Tlv(t) => round_trip(t, |v| v.encoded_len(), |v| v.encode(), |b| MetadataTLV::decode(b), false, &mut fails),
        // `VariableID::encoded_len` is the width of the bare value (what the header and every
        // caller use it for); `encode` is the length-value form used inside TLVs and reports,
        // one octet longer.  The identifier alone is not one of the property's subjects, so
        // only that relation is checked here; the TLV that carries it is checked as a TLV.
        Val::Id(i) => round_trip(i, |v| v.encoded_len() + 1, |v| v.encode(), |b| VariableID::decode(b), false, &mut fails),
        Val::UserOp(op) => check_userop(op, &mut fails),
        Val::UserOpBytes(img) => match catch_loc(|| UserOperation::decode(&mut img.as_slice())) {
            Ok(Ok(op)) => check_userop(&op, &mut fails),
            Ok(Err(_)) => return (None, false, fails),
            Err(p) => {
                fails.push(Fail { clause: "roundtrip", class: format!("decode-panic|{}", panic_class(&p)), detail: format!("decode of image {} panicked at {}: {}", hex(img), p.loc, p.msg) });
                None
            }
        },
        Val::Report(r) => {
            // `Report` has no PartialEq outside the crate's tests and no encoded_len
            match catch_loc(|| {
                let b = r.clone().encode();
                let back = StatusReport::decode(&mut b.as_slice());
                (b, back)
            }) {
                Ok((b, Ok(back))) => {
                    if !report_eq(r, &back) {
                        let (e, g) = (format!("{:?}", r), format!("{:?}", back));
                        fails.push(Fail { clause: "roundtrip", class: diff_class(&e, &g), detail: format!("encoded : {}\ndecoded : {}", e, g) });
                    }
                    Some(b)
                }
                Ok((b, Err(e))) => {
                    fails.push(Fail { clause: "roundtrip", class: format!("decode-err|{}", err_class(&e)), detail: format!("decode of {} failed: {}", hex(&b), e) });
                    Some(b)
                }
                Err(p) => {
                    fails.push(Fail { clause: "roundtrip", class: format!("panic|{}", panic_class(&p)), detail: format!("panicked at {}: {}", p.loc, p.msg) });
                    None
                }
            }
        }
    };
    (bytes, true, fails)
}

fn fnv(tag: &str, bytes: &[u8]) -> u64 {
    let mut h = std::collections::hash_map::DefaultHasher::new(); // fixed keys: deterministic
    tag.hash(&mut h);
    bytes.hash(&mut h);
    h.finish()
}

/// the kind a failure is attributed to: the group, minus the sub-shape for whole PDUs
fn kind_of(group: &str, val: &Val) -> String {
    match val {
        Val::Pdu(_) => "pdu".to_string(),
        _ => group.to_string(),
    }
}

#[derive(Default)]
struct Acc {
    evaluated: u64,
    skipped: u64,
    trivial: u64,
    hashes: Vec<u64>,
    /// signature -> (first index, violation, occurrences)
    fails: BTreeMap<String, (u64, Violation, u64)>,
}
impl Acc {
    fn merge(mut self, o: Acc) -> Acc {
        self.evaluated += o.evaluated;
        self.skipped += o.skipped;
        self.trivial += o.trivial;
        self.hashes.extend(o.hashes);
        for (k, (i, v, n)) in o.fails {
            match self.fails.get_mut(&k) {
                Some(e) => {
                    e.2 += n;
                    if i < e.0 {
                        e.0 = i;
                        e.1 = v;
                    }
                }
                None => {
                    self.fails.insert(k, (i, v, n));
                }
            }
        }
        self
    }
}

fn run_case(g: &Group, gname: &str, idx: u64, acc: &mut Acc, verbose: bool) {
    let c = unrank(&g.dims, idx);
    let Some(val) = (g.make)(&c) else {
        acc.skipped += 1;
        return;
    };
    let (bytes, well_formed, fails) = check(&val);
    if !well_formed {
        acc.skipped += 1;
        if verbose {
            println!("image is rejected by the decoder: not a well-formed value, nothing to check");
        }
        return;
    }
    acc.evaluated += 1;
    if verbose {
        println!("value   : {}", trunc(&format!("{:?}", val), 2000));
        if let Some(b) = &bytes {
            println!("encoding: {} ({} bytes)", trunc(&hex(b), 400), b.len());
        }
        println!("failures: {}", fails.len());
    }
    if fails.is_empty() {
        // non-trivial: every clause evaluated and held, and there is something to lose
        // (the encoding has at least two bytes); distinctness is by (group, encoding)
        match &bytes {
            Some(b) if b.len() >= 2 => acc.hashes.push(fnv(gname, b)),
            _ => acc.trivial += 1,
        }
        return;
    }
    let kind = kind_of(gname, &val);
    for f in fails {
        let sig = format!("{}|{}|{}", f.clause, kind, f.class);
        if verbose {
            println!("FAILED {}: {}", sig, f.detail);
        }
        let e = acc.fails.entry(sig.clone()).or_insert_with(|| {
            (
                idx,
                Violation {
                    clause: f.clause.to_string(),
                    signature: sig.clone(),
                    detail: format!("group {} case {} (coordinates {:?})\n{}\nvalue: {}", gname, idx, &c[..g.dims.len()], f.detail, trunc(&format!("{:?}", val), 500)),
                    replay: json!({"engine": "en-codec", "group": gname, "index": idx,
                        "bytes": bytes.as_ref().map(|b| trunc(&hex(b), 1024)), "value": trunc(&format!("{:?}", val), 1024)}),
                },
                0,
            )
        });
        e.2 += 1;
    }
}

fn tier_of(v: &Value, dflt: Tier) -> Tier {
    match v["tier"].as_str() {
        Some("thorough") => Tier::Thorough,
        Some("quick") => Tier::Quick,
        _ => dflt,
    }
}

fn replay(args: &Args, path: &str) -> Report {
    let mut rep = Report::new("exploration");
    let v: Value = serde_json::from_str(&std::fs::read_to_string(path).expect("replay file")).expect("replay json");
    let tier = tier_of(&v, args.tier);
    let (gname, idx) = (v["case"]["group"].as_str().unwrap_or(""), v["case"]["index"].as_u64().unwrap_or(0));
    let gs = groups(tier);
    let Some(g) = gs.iter().find(|g| g.name == gname) else {
        rep.machinery_errors.push(format!("replay: no group named {:?} in the {} grid", gname, tier.name()));
        return rep;
    };
    println!("replaying group {} case {} of the {} grid", gname, idx, tier.name());
    let mut acc = Acc::default();
    run_case(g, gname, idx, &mut acc, true);
    let want = v["signature"].as_str().unwrap_or("");
    rep.violations = acc.fails.into_values().map(|x| x.1).filter(|x| want.is_empty() || x.signature == want).collect();
    println!("{}", if rep.violations.is_empty() { "the case passes now" } else { "the case still fails" });
    rep.coverage = json!({"evaluations": acc.evaluated, "replayed": {"group": gname, "index": idx}});
    rep
}

pub fn run(args: &Args) -> Report {
    install_panic_recorder();
    if let Some(p) = &args.replay {
        return replay(args, p);
    }
    let mut rep = Report::new("exploration");
    let gs = groups(args.tier);
    let mut total = Acc::default();
    let mut per_group = serde_json::Map::new();
    let mut samples = vec![];
    for g in &gs {
        let n = g.size();
        let acc = (0..n)
            .into_par_iter()
            .fold(Acc::default, |mut acc, idx| {
                run_case(g, &g.name, idx, &mut acc, false);
                acc
            })
            .reduce(Acc::default, Acc::merge);
        per_group.insert(g.name.clone(), json!({"grid": g.dims, "cases": n, "evaluated": acc.evaluated, "not_well_formed_skipped": acc.skipped,
            "failed_clauses": acc.fails.values().map(|x| x.2).sum::<u64>()}));
        if acc.evaluated == 0 {
            rep.machinery_errors.push(format!("group {} produced no well-formed case", g.name));
        }
        // a sample: the last case of the grid (the all-maximum corner) if it is well-formed,
        // else the first one that is
        if let Some(val) = (g.make)(&unrank(&g.dims, n - 1)).or_else(|| (0..n).find_map(|i| (g.make)(&unrank(&g.dims, i)))) {
            if samples.len() < 12 && !g.name.starts_with("pdu/") || g.name == "pdu/eof" {
                let (b, _, _) = check(&val);
                samples.push(json!({"group": g.name, "value": trunc(&format!("{:?}", val), 300), "encoding": b.map(|b| trunc(&hex(&b), 160))}));
            }
        }
        total = total.merge(acc);
    }
    let mut hashes = std::mem::take(&mut total.hashes);
    let verified = hashes.len() as u64;
    hashes.par_sort_unstable();
    hashes.dedup();
    let by_sig: BTreeMap<&String, u64> = total.fails.iter().map(|(k, v)| (k, v.2)).collect();
    rep.coverage = json!({
        "evaluations": total.evaluated,
        "distinct_nontrivial": hashes.len(),
        "verified_cases": verified,
        "trivial_cases": total.trivial,
        "not_well_formed_skipped": total.skipped,
        "rule": "every index of every product grid in en_corpus::groups(tier) is generated in order (mixed radix, last coordinate fastest); coordinates describing a value outside the wire format (offset >= 2^32 under the small flag, fault location without error condition or vice versa, data field > 65533 with CRC, byte images the decoder rejects) are skipped. A case is non-trivial when all clauses (encode-len, roundtrip, and for PDUs length-field and consume, for user operations embedded) were evaluated and held and its encoding has >= 2 bytes; distinct = distinct (group, encoding) pairs",
        "exhaustive": true,
        "groups": per_group,
        "header_variants_per_payload": header_variants(args.tier).len(),
        "failed_clauses_by_signature": by_sig,
        "samples": samples,
    });
    rep.assumptions = vec![
        "numeric fields are represented by the boundary values {0,1,2^32-1} (small) and additionally {2^32,2^64-1} (large); identifier values by {0,1,max} per width".into(),
        "strings and LV bodies are represented by the lengths {0,1,254,255} over an ASCII path alphabet and a 2-byte UTF-8 letter; content beyond length and UTF-8 validity does not influence the codec".into(),
        "whole PDUs: the header flags that the payload codec never reads (version, direction, mode, segmentation control) vary together in 2 sets; their full product is covered by the header grid".into(),
        "values outside the wire format's limits (LV body > 255, segment metadata > 63, unequal entity-id widths, data field > 65535) are not generated".into(),
    ];
    rep.violations = total.fails.into_values().map(|x| x.1).collect();
    rep
}
