//! C14 — E4: the public `FileChecksum::checksum` against the CCSDS definition written naively,
//! for every way the underlying reader may chunk the data.
//!
//! Enumerated (fixed order = case numbers):
//!  A. "plain" readers — `Cursor` (position 0), `Cursor` left at end-of-data (the receiver calls
//!     checksum right after writing) and a real file — for every length in
//!     0..=64, 8185..=8200, 16380..=16390 with contents ramp / all-FF / (length <= 64) a single
//!     non-zero byte at each position. `Null` must give 0 for each of them.
//!  B. a scripted `Read + Seek` whose `read` returns the chunk sizes of a script: every one of the
//!     2^(n-1) compositions of n for every n <= N (quick 14, thorough 18).
//!  C. scripts over {1,2,3,5,8191,8192,8193} with <= K chunks (quick 4, thorough 6) whose sum
//!     lies in 8190..=16390 (the 8 KiB BufReader boundary).
//!  D. sensitivity: every single-byte change (xor 0x01 / 0x80 / 0xff) at every position of every
//!     length 1..=64 changes the sum.
//! The scripted reader never returns more than the caller's buffer holds; the rest of a script
//! chunk is carried to the next `read`, so every byte is delivered exactly once.
use crate::common::*;
use cfdp_core::filestore::{ChecksumType, FileChecksum};
use rayon::prelude::*;
use serde_json::{json, Value};
use std::collections::BTreeMap;
use std::io::{Cursor, Read, Seek, SeekFrom, Write};

/// the definition: zero-pad to a multiple of 4, wrapping sum of big-endian words
fn naive(data: &[u8]) -> u32 {
    let mut d = data.to_vec();
    while d.len() % 4 != 0 {
        d.push(0);
    }
    let mut s = 0u32;
    for w in d.chunks(4) {
        s = s.wrapping_add(u32::from_be_bytes([w[0], w[1], w[2], w[3]]));
    }
    s
}

/// contents: "ramp" (every byte non-zero and position dependent), "ff", "single@p"
fn content(kind: &str, len: usize) -> Vec<u8> {
    if kind == "ramp" {
        (0..len).map(|i| ((i * 37 + 11) % 255 + 1) as u8).collect()
    } else if kind == "ff" {
        vec![0xff; len]
    } else if let Some(p) = kind.strip_prefix("single@") {
        let p: usize = p.parse().unwrap();
        let mut v = vec![0u8; len];
        v[p] = 0xa5;
        v
    } else {
        panic!("unknown content kind {}", kind)
    }
}

/// `Read + Seek` delivering `data` in the chunk sizes of `script` (then whatever is left)
struct Scripted<'a> {
    data: &'a [u8],
    script: &'a [usize],
    pos: usize,
    idx: usize,
    left: usize,
    /// sizes actually returned by `read` since the last seek
    log: Vec<usize>,
}
impl<'a> Scripted<'a> {
    fn new(data: &'a [u8], script: &'a [usize]) -> Self {
        Scripted { data, script, pos: 0, idx: 0, left: 0, log: vec![] }
    }
    fn goto(&mut self, p: usize) {
        self.pos = p.min(self.data.len());
        self.idx = self.script.len();
        self.left = 0;
        self.log.clear();
        let mut acc = 0usize;
        for (i, &c) in self.script.iter().enumerate() {
            if self.pos < acc + c {
                self.idx = i + 1;
                self.left = acc + c - self.pos;
                break;
            }
            acc += c;
        }
    }
}
impl Read for Scripted<'_> {
    fn read(&mut self, buf: &mut [u8]) -> std::io::Result<usize> {
        if self.pos >= self.data.len() || buf.is_empty() {
            return Ok(0);
        }
        if self.left == 0 {
            if self.idx < self.script.len() {
                self.left = self.script[self.idx];
                self.idx += 1;
            } else {
                self.left = self.data.len() - self.pos;
            }
        }
        let n = self.left.min(buf.len()).min(self.data.len() - self.pos);
        buf[..n].copy_from_slice(&self.data[self.pos..self.pos + n]);
        self.pos += n;
        self.left -= n;
        self.log.push(n);
        Ok(n)
    }
}
impl Seek for Scripted<'_> {
    fn seek(&mut self, to: SeekFrom) -> std::io::Result<u64> {
        let target: i128 = match to {
            SeekFrom::Start(p) => p as i128,
            SeekFrom::Current(o) => self.pos as i128 + o as i128,
            SeekFrom::End(o) => self.data.len() as i128 + o as i128,
        };
        if target < 0 {
            return Err(std::io::Error::from(std::io::ErrorKind::InvalidInput));
        }
        self.goto(target as usize);
        Ok(self.pos as u64)
    }
}

/// one case; `reader`: cursor | cursor-at-end | file | scripted | sens
#[derive(Clone, Debug)]
struct Case {
    reader: &'static str,
    len: usize,
    content: String,
    script: Vec<usize>,
    /// sensitivity cases: position and xor mask
    pos: usize,
    xor: u8,
}
impl Case {
    fn json(&self) -> Value {
        json!({"reader": self.reader, "len": self.len, "content": self.content, "script": self.script, "pos": self.pos, "xor": self.xor})
    }
    fn from_json(v: &Value) -> Case {
        let reader = match v["reader"].as_str().unwrap_or("") {
            "cursor" => "cursor",
            "cursor-at-end" => "cursor-at-end",
            "file" => "file",
            "scripted" => "scripted",
            _ => "sens",
        };
        Case {
            reader,
            len: v["len"].as_u64().unwrap() as usize,
            content: v["content"].as_str().unwrap().to_string(),
            script: v["script"].as_array().map(|a| a.iter().map(|x| x.as_u64().unwrap() as usize).collect()).unwrap_or_default(),
            pos: v["pos"].as_u64().unwrap_or(0) as usize,
            xor: v["xor"].as_u64().unwrap_or(0) as u8,
        }
    }
    /// non-trivial: padding is exercised (len % 4 != 0) or the data arrives in >= 2 reads
    fn nontrivial(&self) -> bool {
        self.len % 4 != 0 || self.script.len() >= 2 || self.len > 8192
    }
}

/// outcome of one case: None = fine, Some((clause, class, detail))
fn eval(c: &Case, dir: &std::path::Path, verbose: bool) -> Option<(String, String, String)> {
    let data = content(&c.content, c.len);
    let want = naive(&data);
    let mut log: Vec<usize> = vec![];
    let run = |ty: ChecksumType, log: &mut Vec<usize>| -> Result<Result<u32, String>, String> {
        catch(|| match c.reader {
            "cursor" | "sens" => Cursor::new(data.clone()).checksum(ty).map_err(|e| e.to_string()),
            "cursor-at-end" => {
                let mut cur = Cursor::new(data.clone());
                cur.set_position(data.len() as u64);
                cur.checksum(ty).map_err(|e| e.to_string())
            }
            "file" => {
                let p = dir.join("f.bin");
                std::fs::File::create(&p).and_then(|mut f| f.write_all(&data)).expect("scratch write");
                let mut f = std::fs::File::open(&p).expect("scratch open");
                f.checksum(ty).map_err(|e| e.to_string())
            }
            _ => {
                let mut r = Scripted::new(&data, &c.script);
                let res = r.checksum(ty).map_err(|e| e.to_string());
                *log = r.log.clone();
                res
            }
        })
    };
    if c.reader == "sens" {
        // the changed content must give a different sum than the original
        let mut d2 = data.clone();
        d2[c.pos] ^= c.xor;
        let a = catch(|| Cursor::new(data.clone()).checksum(ChecksumType::Modular).map_err(|e| e.to_string()));
        let b = catch(|| Cursor::new(d2.clone()).checksum(ChecksumType::Modular).map_err(|e| e.to_string()));
        if verbose {
            println!("sens len={} pos={} xor={:#04x}: original -> {:?}, changed -> {:?}", c.len, c.pos, c.xor, a, b);
        }
        return match (a, b) {
            (Ok(Ok(x)), Ok(Ok(y))) if x != y => None,
            (Ok(Ok(x)), Ok(Ok(_))) => Some((
                "sensitivity".into(),
                "single-byte-change-not-detected".into(),
                format!("len {} ({}): byte {} xor {:#04x} leaves the checksum at {:#010x}", c.len, c.content, c.pos, c.xor, x),
            )),
            (a, b) => Some(("sensitivity".into(), "error-or-panic".into(), format!("len {}: {:?} / {:?}", c.len, a, b))),
        };
    }
    // Null first, then Modular
    match run(ChecksumType::Null, &mut log) {
        Ok(Ok(0)) => {}
        other => {
            return Some(("null".into(), "null-not-zero".to_string(), format!("Null checksum of {} bytes ({}) via {} gave {:?}", c.len, c.content, c.reader, other)))
        }
    }
    let got = run(ChecksumType::Modular, &mut log);
    if verbose {
        println!("{} len={} content={} script={:?} reads={:?}: got {:x?}, definition {:#010x}", c.reader, c.len, c.content, c.script, log, got, want);
    }
    match got {
        Ok(Ok(g)) if g == want => None,
        Ok(Ok(g)) => {
            // class by root cause, independent of the reader kind: which reads did the
            // implementation see, and is the padding of the tail involved?
            let class = if c.reader == "scripted" && log.iter().sum::<usize>() != c.len {
                "reader-not-drained"
            } else if c.reader == "scripted" && log.len() > 1 && log[..log.len() - 1].iter().any(|n| n % 4 != 0) {
                "mid-stream-chunk-not-multiple-of-4"
            } else if c.reader == "cursor-at-end"
                && matches!(catch(|| Cursor::new(data.clone()).checksum(ChecksumType::Modular).map_err(|e| e.to_string())), Ok(Ok(x)) if x == want)
            {
                "reader-position-not-reset" // the same content is summed correctly from position 0
            } else if c.len % 4 != 0 {
                "tail-padding"
            } else {
                "whole-words"
            };
            Some((
                "checksum".into(),
                class.to_string(),
                format!(
                    "{} bytes ({}) via {}{}: checksum {:#010x}, CCSDS definition {:#010x}",
                    c.len,
                    c.content,
                    c.reader,
                    if c.reader == "scripted" { format!(" script {:?} (reads seen {:?})", c.script, log) } else { String::new() },
                    g,
                    want
                ),
            ))
        }
        Ok(Err(e)) => Some(("checksum".into(), "error-returned".to_string(), format!("{} bytes via {} script {:?}: error {}", c.len, c.reader, c.script, e))),
        Err(p) => Some(("panic".into(), "checksum-panicked".to_string(), format!("{} bytes via {} script {:?}: panic {}", c.len, c.reader, c.script, p))),
    }
}

fn boundary_scripts(k: usize) -> Vec<Vec<usize>> {
    const A: [usize; 7] = [1, 2, 3, 5, 8191, 8192, 8193];
    fn rec(cur: &mut Vec<usize>, sum: usize, k: usize, out: &mut Vec<Vec<usize>>) {
        if !cur.is_empty() && (8190..=16390).contains(&sum) {
            out.push(cur.clone());
        }
        if cur.len() == k || sum > 16390 {
            return;
        }
        for a in A {
            cur.push(a);
            rec(cur, sum + a, k, out);
            cur.pop();
        }
    }
    let mut out = vec![];
    rec(&mut vec![], 0, k, &mut out);
    // fixed order: by number of chunks, then lexicographic in alphabet order (stable sort of DFS order)
    out.sort_by_key(|s| s.len());
    out
}

fn all_cases(tier: Tier) -> Vec<Case> {
    let mut cases = vec![];
    let lens: Vec<usize> = (0..=64).chain(8185..=8200).chain(16380..=16390).collect();
    // A
    for reader in ["cursor", "cursor-at-end", "file"] {
        for &len in &lens {
            let mut kinds = vec!["ramp".to_string(), "ff".to_string()];
            if len <= 64 {
                kinds.extend((0..len).map(|p| format!("single@{}", p)));
            }
            for k in kinds {
                cases.push(Case { reader, len, content: k, script: vec![], pos: 0, xor: 0 });
            }
        }
    }
    // B
    let n_max = tier.pick(14, 18);
    for n in 1..=n_max {
        for mask in 0u32..(1u32 << (n - 1)) {
            // bit i set = a chunk ends after byte i+1
            let mut script = vec![];
            let mut run = 0;
            for i in 0..n {
                run += 1;
                if i == n - 1 || (mask >> i) & 1 == 1 {
                    script.push(run);
                    run = 0;
                }
            }
            cases.push(Case { reader: "scripted", len: n, content: "ramp".into(), script, pos: 0, xor: 0 });
        }
    }
    // C
    for s in boundary_scripts(tier.pick(4, 6)) {
        cases.push(Case { reader: "scripted", len: s.iter().sum(), content: "ramp".into(), script: s, pos: 0, xor: 0 });
    }
    // D
    for len in 1..=64usize {
        for pos in 0..len {
            for xor in [0x01u8, 0x80, 0xff] {
                cases.push(Case { reader: "sens", len, content: "ramp".into(), script: vec![], pos, xor });
            }
        }
    }
    cases
}

pub fn run(args: &Args) -> Report {
    let mut rep = Report::new("exploration");
    let base = scratch_base().join("c14");
    if let Some(p) = &args.replay {
        let v: Value = serde_json::from_str(&std::fs::read_to_string(p).expect("replay file")).expect("replay json");
        let c = Case::from_json(&v["case"]);
        let dir = base.join("replay");
        std::fs::create_dir_all(&dir).expect("scratch");
        if let Some((clause, class, detail)) = eval(&c, &dir, true) {
            println!("still failing: {}", detail);
            rep.violations.push(Violation { clause: clause.clone(), signature: format!("{}|{}", clause, class), detail, replay: c.json() });
        } else {
            println!("case passes");
        }
        rep.coverage = json!({"evaluations": 1, "distinct_nontrivial": 0, "rule": "replay", "samples": [c.json()]});
        return rep;
    }
    let cases = all_cases(args.tier);
    // contiguous chunks, one scratch directory per chunk (real-file cases)
    let nchunks = rayon::current_num_threads().max(1) * 4;
    let per = (cases.len() + nchunks - 1) / nchunks;
    let fails: Vec<(usize, (String, String, String))> = cases
        .par_chunks(per.max(1))
        .enumerate()
        .flat_map(|(k, chunk)| {
            let dir = base.join(format!("w{}", k));
            std::fs::create_dir_all(&dir).expect("scratch");
            let mut out = vec![];
            for (i, c) in chunk.iter().enumerate() {
                if let Some(f) = eval(c, &dir, false) {
                    out.push((k * per.max(1) + i, f));
                }
            }
            let _ = std::fs::remove_dir_all(&dir);
            out
        })
        .collect();
    // first (smallest case number) per class
    let mut first: BTreeMap<String, (usize, String, String)> = BTreeMap::new();
    let mut per_class: BTreeMap<String, u64> = BTreeMap::new();
    let mut fails = fails;
    fails.sort_by_key(|f| f.0);
    for (i, (clause, class, detail)) in fails {
        let sig = format!("{}|{}", clause, class);
        *per_class.entry(sig.clone()).or_default() += 1;
        first.entry(sig).or_insert((i, clause, detail));
    }
    for (sig, (i, clause, detail)) in &first {
        rep.violations.push(Violation {
            clause: clause.clone(),
            signature: sig.clone(),
            detail: format!("{} (case #{}; {} failing cases in this class)", detail, i, per_class[sig]),
            replay: cases[*i].json(),
        });
    }
    let nontrivial = cases.iter().filter(|c| c.nontrivial()).count(); // every case is distinct by construction
    let by_reader = |r: &str| cases.iter().filter(|c| c.reader == r).count();
    let scripted_midstream = cases
        .iter()
        .filter(|c| c.reader == "scripted" && c.script.len() > 1 && c.script[..c.script.len() - 1].iter().any(|n| n % 4 != 0))
        .count();
    let pick = |r: &str, nth: usize| cases.iter().filter(|c| c.reader == r).nth(nth).map(|c| c.json()).unwrap_or(Value::Null);
    rep.coverage = json!({
        "evaluations": cases.len(),
        "distinct_nontrivial": nontrivial,
        "rule": "a case is non-trivial when the length is not a multiple of 4 (padding exercised) or the reader delivers the data in two or more reads (scripted with >= 2 chunks, or longer than the 8 KiB buffer)",
        "exhaustive": true,
        "cases_cursor": by_reader("cursor"), "cases_cursor_at_end": by_reader("cursor-at-end"), "cases_file": by_reader("file"),
        "cases_scripted": by_reader("scripted"), "cases_sensitivity": by_reader("sens"),
        "scripted_with_mid_stream_chunk_not_multiple_of_4": scripted_midstream,
        "compositions_up_to_n": args.tier.pick(14, 18),
        "boundary_script_max_chunks": args.tier.pick(4, 6),
        "failing_cases_per_class": per_class,
        "samples": [pick("cursor", 70), pick("file", 2215), pick("scripted", 11), pick("scripted", 17000), pick("sens", 100)],
    });
    rep.assumptions = vec![
        "contents ramp / all-FF / single non-zero byte stand for arbitrary contents (the sum is linear in the words)".into(),
        "a reader is characterised by the sequence of sizes its read() returns; scripts of up to N bytes in all compositions, and scripts over {1,2,3,5,8191,8192,8193} around the 8 KiB buffer, stand for arbitrary short reads".into(),
        "read errors (EINTR etc.) are not injected".into(),
    ];
    let _ = std::fs::remove_dir_all(&base);
    rep
}
