//! C17 (component part) — E3: explicit-state search of the real timer `Counter` (hook H2) on the
//! paused clock against an integer reference model, in lock step.
//!
//! Alphabet: restart, reset, pause, the three queries, and clock advances of 1/4, 1/2, 1, 1 1/2 and
//! 3 timeouts; limits 1..=3; both initial forms (`new`, `new` + `start`). States are identified by
//! the counter's own canonical dump; the search runs to closure under the bound "at most 4 timeouts
//! of un-serviced elapsed time". After every operation the real dump and every query result must
//! equal the reference's.
use crate::common::*;
use crate::world::on_rt;
use cfdp_daemon::verif::Counter;
use serde_json::json;
use std::collections::{HashMap, VecDeque};
use std::time::Duration;

const T: u64 = 4; // timeout in seconds; one "quarter" is one second

#[derive(Clone, Copy, Debug, PartialEq, Eq, Hash)]
enum Op {
    Start,
    Restart,
    Reset,
    Pause,
    QLimit,
    QOccurred,
    QUntil,
    Adv(u64),
}

#[derive(Clone, Debug, PartialEq, Eq, Hash)]
struct Ref {
    paused: bool,
    count: u32,
    occurred: bool,
    elapsed: u64,
    max: u32,
}
impl Ref {
    fn update(&mut self) {
        if self.paused {
            return;
        }
        while self.elapsed >= T {
            self.count = (self.count + 1).min(self.max);
            self.elapsed -= T;
            self.occurred = true;
        }
    }
    /// returns the query result, if the op is a query
    fn apply(&mut self, op: Op) -> Option<u64> {
        match op {
            Op::Start => {
                self.paused = false;
                None
            }
            Op::Restart => {
                self.update();
                self.elapsed = 0;
                self.paused = false;
                self.occurred = false;
                None
            }
            Op::Reset => {
                self.elapsed = 0;
                self.paused = false;
                self.occurred = false;
                self.count = 0;
                None
            }
            Op::Pause => {
                self.update();
                self.paused = true;
                None
            }
            Op::QLimit => {
                self.update();
                Some((self.count == self.max) as u64)
            }
            Op::QOccurred => {
                self.update();
                Some(self.occurred as u64)
            }
            Op::QUntil => Some(T.saturating_sub(self.elapsed) * 1000),
            Op::Adv(q) => {
                // a paused counter does not observe time: restart/reset re-arm it from "now"
                if !self.paused {
                    self.elapsed += q;
                }
                None
            }
        }
    }
    fn dump(&self) -> String {
        if self.paused {
            format!("P({},{})", self.count, self.occurred)
        } else {
            format!("R({},{},{})", self.count, self.occurred, self.elapsed as u128 * 1_000_000_000)
        }
    }
}

/// replay an op list on a fresh real counter; returns (dump, last query result) or the panic
fn real(max: u32, ops: &[Op]) -> Result<(String, Option<u64>), String> {
    on_rt(async {
        let mut c = Counter::new(Duration::from_secs(T), max);
        let mut last = None;
        for op in ops {
            last = None;
            match op {
                Op::Start => c.start(),
                Op::Restart => catch(|| c.verif_restart())?,
                Op::Reset => c.verif_reset(),
                Op::Pause => catch(|| c.pause())?,
                Op::QLimit => last = Some(catch(|| c.limit_reached())? as u64),
                Op::QOccurred => last = Some(catch(|| c.timeout_occurred())? as u64),
                Op::QUntil => last = Some(c.until_timeout().as_millis() as u64),
                Op::Adv(q) => tokio::time::advance(Duration::from_secs(*q)).await,
            }
        }
        Ok((c.verif_fingerprint(), last))
    })
}

pub fn run(rep: &mut Report, tier: Tier) {
    let limits: Vec<u32> = tier.pick(vec![1, 2], vec![1, 2, 3]);
    let advs = [1u64, 2, 4, 6, 12];
    let mut states = 0u64;
    let mut transitions = 0u64;
    let mut samples = vec![];
    let mut flagged: HashMap<String, bool> = HashMap::new();
    for max in limits {
        for started in [false, true] {
            let init_ops: Vec<Op> = if started { vec![Op::Start] } else { vec![] };
            let mut r0 = Ref { paused: true, count: 0, occurred: false, elapsed: 0, max };
            for op in &init_ops {
                r0.apply(*op);
            }
            let mut seen: HashMap<Ref, Vec<Op>> = HashMap::new();
            let mut q = VecDeque::new();
            seen.insert(r0.clone(), init_ops.clone());
            q.push_back(r0);
            while let Some(st) = q.pop_front() {
                states += 1;
                let ops = seen[&st].clone();
                let mut alphabet = vec![Op::Restart, Op::Reset, Op::Pause, Op::QLimit, Op::QOccurred];
                if !st.paused {
                    alphabet.push(Op::QUntil); // a paused counter's expiry is never consulted (Timer::until_timeout)
                }
                for a in advs {
                    // bound: at most 4 timeouts of elapsed time that nobody has serviced yet
                    if st.paused || st.elapsed + a <= 4 * T {
                        alphabet.push(Op::Adv(a));
                    }
                }
                for op in alphabet {
                    transitions += 1;
                    let mut nr = st.clone();
                    let want_q = nr.apply(op);
                    let mut nops = ops.clone();
                    nops.push(op);
                    let got = real(max, &nops);
                    let mut report = |clause: &str, detail: String| {
                        if flagged.insert(clause.to_string(), true).is_none() {
                            rep.violations.push(Violation {
                                clause: format!("counter-{}", clause),
                                signature: format!("counter-{}|limit={}|ops={:?}", clause, max, nops),
                                detail,
                                replay: json!({"engine": "seq-counter", "limit": max, "ops": format!("{:?}", nops)}),
                            });
                        }
                    };
                    match got {
                        Err(p) => report("panic", format!("Counter(limit {}) panicked after {:?}: {}", max, nops, p)),
                        Ok((dump, q_real)) => {
                            if dump != nr.dump() {
                                report("state", format!("Counter(limit {}, timeout {} s) after {:?} is {} but {} expirations/elapsed time give {}", max, T, nops, dump, "the reference", nr.dump()));
                            }
                            if want_q.is_some() && q_real != want_q {
                                report("query", format!("Counter(limit {}) after {:?}: {:?} returned {:?}, reference {:?}", max, nops, op, q_real, want_q));
                            }
                        }
                    }
                    if samples.len() < 3 && nops.len() == 5 {
                        samples.push(json!({"limit": max, "ops": format!("{:?}", nops), "reference_state": nr.dump()}));
                    }
                    if !seen.contains_key(&nr) {
                        seen.insert(nr.clone(), nops);
                        q.push_back(nr);
                    }
                }
            }
        }
    }
    if let Some(o) = rep.coverage.as_object_mut() {
        o.insert("counter".into(), json!({"states": states, "transitions_executed_on_real_counter": transitions, "samples": samples, "closure_bound": "un-serviced elapsed time <= 4 timeouts", "exhaustive": true}));
    }
}
