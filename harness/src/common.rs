//! Plumbing shared by every check: arguments, violation records, known-findings
//! matching, evidence files, replay files.
use serde_json::{json, Value};
use std::{
    collections::BTreeMap,
    path::{Path, PathBuf},
    time::Instant,
};

/// where evidence, replays and known_findings.json live (the check script exports its own directory)
pub fn verif_root() -> String {
    std::env::var("VERIF_ROOT").unwrap_or_else(|_| "/verif".to_string())
}

#[derive(Clone, Copy, PartialEq, Eq, Debug)]
pub enum Tier {
    Quick,
    Thorough,
}
impl Tier {
    pub fn name(self) -> &'static str {
        match self {
            Tier::Quick => "quick",
            Tier::Thorough => "thorough",
        }
    }
    pub fn pick<T>(self, q: T, t: T) -> T {
        match self {
            Tier::Quick => q,
            Tier::Thorough => t,
        }
    }
}

#[derive(Clone, Debug)]
pub struct Args {
    pub id: String,
    pub tier: Tier,
    pub seed: i64,
    pub replay: Option<String>,
    pub extra: Vec<String>,
}

/// One violation of a property clause, reduced to a signature that identifies the
/// root cause (clause + scenario class + minimal deviation), plus a replayable case.
#[derive(Clone, Debug)]
pub struct Violation {
    pub clause: String,
    /// identity used for known-finding matching and de-duplication
    pub signature: String,
    /// human readable explanation of what failed
    pub detail: String,
    /// replayable artefact (scenario + event list / input bytes / op list)
    pub replay: Value,
}

/// What a check returns to the driver.
pub struct Report {
    pub level: &'static str,
    pub coverage: Value,
    pub assumptions: Vec<String>,
    pub violations: Vec<Violation>,
    /// machinery errors (never verdicts): audit failures, nondeterminism, caps …
    pub machinery_errors: Vec<String>,
}
impl Report {
    pub fn new(level: &'static str) -> Self {
        Report {
            level,
            coverage: json!({}),
            assumptions: vec![],
            violations: vec![],
            machinery_errors: vec![],
        }
    }
}

#[derive(Clone, Debug)]
pub struct Finding {
    pub property: String,
    pub signature: String,
    pub what: String,
}

pub fn load_findings() -> Vec<Finding> {
    let p = Path::new(&verif_root()).join("known_findings.json");
    let Ok(txt) = std::fs::read_to_string(&p) else {
        return vec![];
    };
    let v: Value = serde_json::from_str(&txt).expect("known_findings.json is not valid JSON");
    v["findings"]
        .as_array()
        .map(|a| {
            a.iter()
                .map(|f| Finding {
                    property: f["property"].as_str().unwrap_or("").to_string(),
                    signature: f["signature"].as_str().unwrap_or("").to_string(),
                    what: f["what"].as_str().unwrap_or("").to_string(),
                })
                .collect()
        })
        .unwrap_or_default()
}

fn sanitize(s: &str) -> String {
    s.chars()
        .map(|c| if c.is_ascii_alphanumeric() || c == '-' || c == '_' || c == '.' { c } else { '_' })
        .take(120)
        .collect()
}

/// Finish a check: write evidence, replay files, print verdict lines, return exit code.
pub fn finish(args: &Args, started: Instant, mut report: Report) -> i32 {
    let id = &args.id;
    let findings = load_findings();
    // de-duplicate by signature, keep the first (shortest: engines return BFS order)
    let mut by_sig: BTreeMap<String, Violation> = BTreeMap::new();
    let total = report.violations.len();
    for v in report.violations.drain(..) {
        by_sig.entry(v.signature.clone()).or_insert(v);
    }
    let mut new_violations = 0;
    let mut known = 0;
    let replay_dir = PathBuf::from(verif_root()).join("replays").join(id);
    if args.replay.is_none() {
        // counterexamples of earlier runs are stale once the check has run again
        let _ = std::fs::remove_dir_all(&replay_dir);
    }
    let mut lines = vec![];
    for (sig, v) in &by_sig {
        if let Some(f) = findings.iter().find(|f| &f.property == id && &f.signature == sig) {
            known += 1;
            lines.push(format!("KNOWN-FINDING: property={} {} [{}]", id, f.what, sig));
            continue;
        }
        new_violations += 1;
        let _ = std::fs::create_dir_all(&replay_dir);
        let path = replay_dir.join(format!("{}.json", sanitize(sig)));
        let body = json!({
            "property": id, "clause": v.clause, "signature": sig, "detail": v.detail,
            "tier": args.tier.name(), "case": v.replay,
        });
        let _ = std::fs::write(&path, serde_json::to_string_pretty(&body).unwrap());
        lines.push(format!("VIOLATION property={} replay={}", id, path.display()));
        lines.push(format!("  clause={} signature={}", v.clause, sig));
        for l in v.detail.lines().take(12) {
            lines.push(format!("  | {}", l));
        }
    }
    let wall = started.elapsed().as_secs_f64();
    if let Some(obj) = report.coverage.as_object_mut() {
        obj.insert("violation_reports_raw".into(), json!(total));
        obj.insert("distinct_violation_signatures".into(), json!(by_sig.len()));
        obj.insert("known_findings_matched".into(), json!(known));
        if !report.machinery_errors.is_empty() {
            obj.insert("machinery_errors".into(), json!(report.machinery_errors));
        }
    }
    let ev = json!({
        "property_id": id,
        "tier": args.tier.name(),
        "seed": args.seed,
        "level": report.level,
        "coverage": report.coverage,
        "assumptions": report.assumptions,
        "wall_s": wall,
        "violations": new_violations,
    });
    if args.replay.is_none() {
        let evdir = PathBuf::from(verif_root()).join("evidence");
        let _ = std::fs::create_dir_all(&evdir);
        std::fs::write(evdir.join(format!("{}.json", id)), serde_json::to_string_pretty(&ev).unwrap())
            .expect("cannot write evidence");
    }
    for l in &lines {
        println!("{}", l);
    }
    if !report.machinery_errors.is_empty() {
        for e in &report.machinery_errors {
            println!("MACHINERY-ERROR property={} {}", id, e);
        }
        // a violation that was found stands on its own (it is a concrete replay of the real code);
        // machinery errors alone never produce a verdict
        if new_violations == 0 {
            return 2;
        }
    }
    println!(
        "{} property={} tier={} wall={:.1}s new_violations={} known_findings={}",
        if new_violations == 0 { "OK" } else { "FAIL" },
        id,
        args.tier.name(),
        wall,
        new_violations,
        known
    );
    if new_violations > 0 {
        1
    } else {
        0
    }
}

/// per-process scratch directory on tmpfs (falls back to the system temp dir)
pub fn scratch_base() -> PathBuf {
    let shm = Path::new("/dev/shm");
    let base = if shm.is_dir() { shm.to_path_buf() } else { std::env::temp_dir() };
    let d = base.join(format!("cfdp_verif_{}", std::process::id()));
    let _ = std::fs::create_dir_all(&d);
    d
}

pub fn hex(b: &[u8]) -> String {
    let mut s = String::with_capacity(b.len() * 2);
    for x in b {
        s.push_str(&format!("{:02x}", x));
    }
    s
}
pub fn unhex(s: &str) -> Vec<u8> {
    (0..s.len() / 2).map(|i| u8::from_str_radix(&s[2 * i..2 * i + 2], 16).unwrap()).collect()
}

/// run a closure catching panics; returns Err(message) on unwind
pub fn catch<T>(f: impl FnOnce() -> T) -> Result<T, String> {
    match std::panic::catch_unwind(std::panic::AssertUnwindSafe(f)) {
        Ok(v) => Ok(v),
        Err(e) => Err(if let Some(s) = e.downcast_ref::<&str>() {
            s.to_string()
        } else if let Some(s) = e.downcast_ref::<String>() {
            s.clone()
        } else {
            "panic".to_string()
        }),
    }
}


// ------------------------------------------------------------------------------------------
// Watchdog of the real-daemon engine. A task of the subject that never goes idle (it is always
// ready, but passes none of the instrumented loop steps) keeps the paused clock from advancing:
// the schedule under execution never returns. That is a behaviour of the subject ("spins"), not
// of the harness, so it is reported as a finding instead of hanging the check.
use std::sync::{Mutex, OnceLock};
static CONTEXT: OnceLock<(Args, Instant)> = OnceLock::new();
static BEATS: Mutex<Vec<(std::thread::ThreadId, Instant, String, Vec<usize>, Vec<String>)>> = Mutex::new(Vec::new());

pub fn set_context(args: &Args, started: Instant) {
    let _ = CONTEXT.set((args.clone(), started));
}

/// called by the engine at every step of a schedule (`None`: the schedule has ended)
pub fn heartbeat(schedule: Option<(&str, &[usize], &[String])>) {
    let me = std::thread::current().id();
    let mut b = BEATS.lock().unwrap();
    b.retain(|e| e.0 != me);
    if let Some((name, prefix, acts)) = schedule {
        b.push((me, Instant::now(), name.to_string(), prefix.to_vec(), acts.to_vec()));
    }
}

pub fn start_watchdog() {
    static ONCE: std::sync::Once = std::sync::Once::new();
    ONCE.call_once(|| {
        let limit = std::env::var("VERIF_WATCHDOG_S").ok().and_then(|s| s.parse::<u64>().ok()).unwrap_or(120);
        std::thread::spawn(move || loop {
            std::thread::sleep(std::time::Duration::from_secs(5));
            let stale = {
                let b = BEATS.lock().unwrap();
                b.iter().find(|e| e.1.elapsed().as_secs() >= limit).cloned()
            };
            if let Some((_, since, name, prefix, acts)) = stale {
                let Some((args, started)) = CONTEXT.get() else { continue };
                let mut rep = Report::new("model_checking");
                rep.coverage = json!({"states": 1, "transitions": 1, "traces_validated_against_impl": 0, "samples": [acts], "explanation": "the run was ended by the watchdog: one schedule of the real daemons never returned"});
                rep.violations.push(Violation {
                    clause: "never-idle".into(),
                    signature: format!("never-idle|{}", name.split(" size=").next().unwrap_or(&name)),
                    detail: format!(
                        "a task of the real daemon stayed runnable for {} s of real time without the virtual clock being able to advance and without passing an instrumented loop step (it spins): schedule {:?} of scenario {}",
                        since.elapsed().as_secs(),
                        acts,
                        name
                    ),
                    replay: json!({"engine": "daemon-dbx", "scenario": name, "choices": prefix, "note": "replaying this schedule does not return; bound it with VERIF_WATCHDOG_S"}),
                });
                let code = finish(args, *started, rep);
                std::process::exit(code);
            }
        });
    });
}
