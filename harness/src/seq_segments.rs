//! C09 — E3: explicit-state search of the real `Segments` against a bit-set reference.
//!
//! Universe: M byte positions starting at `base`. Alphabet: every segment (a,b),
//! base <= a < b <= base+M. BFS over `merge` to closure from the empty list; the state key is
//! the *raw* stored vector (a corrupt representation is its own state). In every state
//! every `is_complete(n)` and every `gaps(s,e)` window is compared with the reference.
use crate::common::*;
use cfdp_daemon::verif::Segments;
use serde_json::{json, Value};
use std::collections::{HashMap, VecDeque};

type Raw = Vec<(u64, u64)>;

fn build(ops: &[(u64, u64)]) -> Result<(Segments, Vec<u64>), String> {
    let mut s = Segments::new();
    let mut rets = vec![];
    for &op in ops {
        let r = catch(|| s.merge(op))?;
        rets.push(r);
    }
    Ok((s, rets))
}

fn ref_runs(mask: u32, m: u32, base: u64, lo: u64, hi: u64, want_set: bool) -> Raw {
    // maximal runs of bits equal to want_set inside [lo,hi); positions outside the universe
    // [base, base+m) are clear.
    let mut out: Raw = vec![];
    let mut cur: Option<u64> = None;
    let mut p = lo;
    while p < hi {
        let set = p >= base && p - base < m as u64 && (mask >> (p - base)) & 1 == 1;
        if set == want_set {
            if cur.is_none() {
                cur = Some(p);
            }
        } else if let Some(st) = cur.take() {
            out.push((st, p));
        }
        p += 1;
    }
    if let Some(st) = cur {
        out.push((st, hi));
    }
    out
}

fn ref_complete(mask: u32, m: u32, base: u64, n: u64) -> bool {
    if n == 0 {
        return true;
    }
    if base > 0 || n > m as u64 {
        return false; // byte 0 (or byte m) lies outside the universe and is never held
    }
    let want = ((1u64 << n) - 1) as u32;
    mask & want == want
}

struct Stats {
    states: u64,
    transitions: u64,
    queries: u64,
    nontrivial: u64,
}

fn explore(m: u32, base: u64, viol: &mut Vec<Violation>, st: &mut Stats, samples: &mut Vec<Value>) {
    let alphabet: Vec<(u64, u64)> = (0..m as u64)
        .flat_map(|a| ((a + 1)..=m as u64).map(move |b| (base + a, base + b)))
        .collect();
    // state: raw vector -> (reference mask, shortest op list)
    let mut seen: HashMap<Raw, (u32, Vec<(u64, u64)>)> = HashMap::new();
    let mut q: VecDeque<Raw> = VecDeque::new();
    seen.insert(vec![], (0, vec![]));
    q.push_back(vec![]);
    let mut flagged: HashMap<&'static str, bool> = HashMap::new();
    let mut report = |clause: &'static str, ops: &[(u64, u64)], detail: String, viol: &mut Vec<Violation>| {
        if flagged.insert(clause, true).is_some() {
            return; // BFS order: the first per clause and universe is the shortest
        }
        viol.push(Violation {
            clause: clause.to_string(),
            signature: format!("{}|M={}|base={}|ops={:?}", clause, m, base, ops),
            detail,
            replay: json!({"engine":"seq-segments","ops": ops.iter().map(|x| vec![x.0.to_string(), x.1.to_string()]).collect::<Vec<_>>(), "M": m, "base": base.to_string()}),
        });
    };
    while let Some(raw) = q.pop_front() {
        let (mask, ops) = seen.get(&raw).cloned().unwrap();
        st.states += 1;
        // queries in this state
        let (seg, _) = match build(&ops) {
            Ok(x) => x,
            Err(e) => {
                report("panic", &ops, format!("merge panicked: {}", e), viol);
                continue;
            }
        };
        let lo = base.saturating_sub(1);
        let hi = (base + m as u64).saturating_add(1);
        // is_complete(n): true iff every byte of [0,n) is held
        let mut ns: Vec<u64> = (lo..=hi).collect();
        ns.push(0);
        ns.sort();
        ns.dedup();
        for n in ns {
            st.queries += 1;
            let expect = ref_complete(mask, m, base, n);
            match catch(|| seg.is_complete(n)) {
                Ok(got) => {
                    if got != expect {
                        report(
                            "is_complete",
                            &ops,
                            format!("after merges {:?} (held {:?}) is_complete({}) = {} but reference says {}", ops, ref_runs(mask, m, base, base, base + m as u64, true), n, got, expect),
                            viol,
                        );
                    } else if expect {
                        st.nontrivial += 1;
                    }
                }
                Err(e) => report("panic", &ops, format!("is_complete({}) panicked: {}", n, e), viol),
            }
        }
        // gaps(s,e) for every window
        for s in lo..=hi {
            for e in s..=hi {
                st.queries += 1;
                let expect = ref_runs(mask, m, base, s, e, false);
                match catch(|| seg.gaps(s, e)) {
                    Ok(got) => {
                        if got != expect {
                            report(
                                "gaps",
                                &ops,
                                format!("after merges {:?} gaps({},{}) = {:?} but the maximal uncovered sub-ranges are {:?}", ops, s, e, got, expect),
                                viol,
                            );
                        } else if expect.len() > 1 {
                            st.nontrivial += 1;
                        }
                    }
                    Err(e2) => report("panic", &ops, format!("gaps({},{}) panicked: {}", s, e, e2), viol),
                }
            }
        }
        // transitions
        for &op in &alphabet {
            st.transitions += 1;
            let mut nops = ops.clone();
            nops.push(op);
            let built = build(&nops);
            let (nseg, rets) = match built {
                Ok(x) => x,
                Err(e) => {
                    report("panic", &nops, format!("merge{:?} panicked: {}", op, e), viol);
                    continue;
                }
            };
            let add: u32 = (((1u64 << (op.1 - base)) - 1) & !((1u64 << (op.0 - base)) - 1)) as u32;
            let nmask = mask | add;
            let newly = (nmask.count_ones() - mask.count_ones()) as u64;
            let got = *rets.last().unwrap();
            if got != newly {
                report(
                    "merge-count",
                    &nops,
                    format!("merges {:?}: the last merge returned {} newly held bytes, the set union grew by {}", nops, got, newly),
                    viol,
                );
            }
            let nraw: Raw = nseg.verif_raw().to_vec();
            if samples.len() < 3 && nops.len() == 3 {
                samples.push(json!({"ops": format!("{:?}", nops), "raw": format!("{:?}", nraw), "merge_returns": rets}));
            }
            if !seen.contains_key(&nraw) {
                seen.insert(nraw.clone(), (nmask, nops));
                q.push_back(nraw);
            } else {
                // same raw representation reached with a different union: the representation
                // lost information; queries above will flag it from one of the two paths, but
                // make the divergence explicit as well
                let (omask, oops) = seen.get(&nraw).unwrap();
                if *omask != nmask {
                    report(
                        "union",
                        &nops,
                        format!("merges {:?} and {:?} give the same stored list {:?} but different unions", nops, oops, nraw),
                        viol,
                    );
                }
            }
        }
    }
}

fn replay(path: &str) -> Report {
    let mut rep = Report::new("model_checking");
    let v: Value = serde_json::from_str(&std::fs::read_to_string(path).expect("replay file")).unwrap();
    let ops: Vec<(u64, u64)> = v["case"]["ops"]
        .as_array()
        .unwrap()
        .iter()
        .map(|p| (p[0].as_str().unwrap().parse().unwrap(), p[1].as_str().unwrap().parse().unwrap()))
        .collect();
    let mut s = Segments::new();
    for &op in &ops {
        let r = catch(|| s.merge(op));
        println!("merge{:?} -> {:?}   raw={:?}", op, r, s.verif_raw());
    }
    let m: u32 = v["case"]["M"].as_u64().unwrap() as u32;
    let base: u64 = v["case"]["base"].as_str().unwrap().parse().unwrap();
    let mut st = Stats { states: 0, transitions: 0, queries: 0, nontrivial: 0 };
    let mut samples = vec![];
    explore(m, base, &mut rep.violations, &mut st, &mut samples);
    rep.violations.retain(|x| x.signature == v["signature"].as_str().unwrap_or(""));
    rep.coverage = json!({"states": st.states, "transitions": st.transitions, "traces_validated_against_impl": st.transitions, "samples": samples});
    rep
}

pub fn run(args: &Args) -> Report {
    if let Some(p) = &args.replay {
        return replay(p);
    }
    let mut rep = Report::new("model_checking");
    let m: u32 = args.tier.pick(9, 14);
    let bases: Vec<u64> = vec![0, (1u64 << 32) - (m as u64) / 2, u64::MAX - m as u64];
    let mut st = Stats { states: 0, transitions: 0, queries: 0, nontrivial: 0 };
    let mut samples = vec![];
    let mut per = vec![];
    for &b in &bases {
        let before = (st.states, st.transitions);
        explore(m, b, &mut rep.violations, &mut st, &mut samples);
        per.push(json!({"base": b.to_string(), "M": m, "states": st.states - before.0, "transitions": st.transitions - before.1}));
    }
    // vacuity guard: the closure over M positions must reach every subset (2^M raw states)
    let expect_states = 3 * (1u64 << m);
    if rep.violations.is_empty() && st.states != expect_states {
        rep.machinery_errors.push(format!("closure reached {} states, expected {}", st.states, expect_states));
    }
    rep.coverage = json!({
        "states": st.states,
        "transitions": st.transitions,
        "traces_validated_against_impl": st.transitions,
        "samples": samples,
        "queries_evaluated": st.queries,
        "nontrivial_queries": st.nontrivial,
        "universes": per,
        "exhaustive": true,
        "explanation": "BFS to closure over all merge sequences of segments inside an M-position universe at three bases (0, straddling 2^32, ending at 2^64-1); every transition is the real Segments::merge, every state is queried with all is_complete(n) and all gaps(s,e) windows against a bit set",
    });
    rep.assumptions = vec![
        "offset arithmetic is translation-invariant between the three explored bases".into(),
        "segments longer than M positions behave like segments of length <= M".into(),
    ];
    rep
}
