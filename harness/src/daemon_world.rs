//! E2 `daemon-dbx`: deviation-bounded exhaustive scheduling of the REAL daemons.
//!
//! Two or three real `Daemon<NativeFileStore>` run their real `manage_transactions` loops with
//! really spawned transaction tasks on one paused current-thread runtime. The explorer owns every
//! source of nondeterminism: a PDU leaves a daemon's capacity-1 transport slot only on `Take`,
//! reaches a daemon only on `Deliver`, the clock moves only on `Advance`, user primitives are
//! explorer actions. Hook H5 reports which branch each transaction loop took; after every action
//! those observed steps are replayed on an E1 *twin* (world.rs) of each transaction, and PDUs,
//! indications and termination of the real transaction must equal the twin's (trace validation of
//! E1's loop model; isolation oracle of C11).
use crate::common::*;
use crate::world::*;
use async_trait::async_trait;
use cfdp_core::{
    daemon::{EntityConfig, Indication, PutRequest, UserPrimitive},
    filestore::{FileStoreRequest, NativeFileStore},
    pdu::{
        ACKSubDirective, CRCFlag, Condition, DeliveryCode, Direction, FileDataPDU, FileSizeFlag, FileStatusCode, Finished, NakOrKeepAlive, NegativeAcknowledgmentPDU, Operations, PDUDirective, PDUEncode,
        PDUHeader, PDUPayload, PDUType, PositiveAcknowledgePDU, SegmentRequestForm, SegmentationControl, SegmentedData, TransactionStatus, TransmissionMode, UnsegmentedFileData, VariableID, PDU, U3,
    },
    transaction::TransactionID,
};
use cfdp_daemon::{
    transport::PDUTransport,
    verif::{install_trace, LoopStep, TraceBuf},
    Daemon,
};
use serde_json::{json, Value};
use std::{
    collections::{HashMap, VecDeque},
    io::Error as IoError,
    path::PathBuf,
    sync::{atomic::AtomicBool, Arc},
    time::Duration,
};
use tokio::sync::{mpsc, oneshot};

struct CtlTransport {
    in_rx: mpsc::Receiver<PDU>,
    take_rx: mpsc::UnboundedReceiver<()>,
    out_tx: mpsc::UnboundedSender<(VariableID, PDU)>,
}
#[async_trait]
impl PDUTransport for CtlTransport {
    async fn request(&mut self, _destination: VariableID, _pdu: PDU) -> Result<(), IoError> {
        Ok(())
    }
    async fn receive(&mut self) -> Result<PDU, IoError> {
        std::future::pending().await
    }
    async fn pdu_handler(&mut self, _signal: Arc<AtomicBool>, sender: mpsc::Sender<PDU>, mut recv: mpsc::Receiver<(VariableID, PDU)>) -> Result<(), IoError> {
        let mut takes = 0usize;
        loop {
            tokio::select! {
                biased;
                p = self.in_rx.recv() => match p {
                    Some(p) => { if sender.send(p).await.is_err() { break } }
                    None => break,
                },
                t = self.take_rx.recv() => match t {
                    Some(()) => takes += 1,
                    None => break,
                },
                x = recv.recv(), if takes > 0 => match x {
                    Some(x) => { takes -= 1; let _ = self.out_tx.send(x); }
                    None => break,
                },
            }
        }
        Ok(())
    }
}

#[derive(Clone, Debug)]
pub struct TxnSpec {
    pub from: usize,
    pub to: usize,
    pub ack: bool,
    pub size: u64,
}

#[derive(Clone, Debug)]
pub struct DScn {
    pub name: String,
    /// configuration template shared by all entities (segment size, timeouts, limits, handlers, …)
    pub cfg: Scenario,
    pub daemons: usize,
    pub txns: Vec<TxnSpec>,
    pub dev_bound: usize,
    pub drops: bool,
    pub dups: bool,
    pub overtake: bool,
    pub delay: bool,
    /// (transaction index, side, op): each may be issued once, at any choice point
    pub user: Vec<(usize, Side, UserOp)>,
    pub strays: bool,
    pub horizon: usize,
    /// initial value of every daemon's transaction sequence counter (None: U16(7))
    pub seq_start: Option<VariableID>,
    /// allow one `Burst` per schedule
    pub bursts: bool,
    /// if set, `cfg` is installed as the per-entity configuration of every peer and THIS is the
    /// daemons' default configuration (which must then never be used for these transactions)
    pub default_cfg: Option<Scenario>,
    /// the source names are symbolic links (inside the sender's root) to the files holding the data
    pub src_symlink: bool,
    /// the Put requests name no destination file (empty name)
    pub empty_dst: bool,
}

/// the explorer's alphabet
#[derive(Clone, Debug, PartialEq, Eq)]
pub enum Act {
    Put(usize),
    Take(usize),
    Deliver(usize),
    Drop(usize),
    Dup(usize),
    Advance,
    User(usize),
    Stray(usize, usize),
    /// the oldest PDU in flight arrives many times at once (more copies than the command queue of
    /// the transaction it belongs to can hold), with no chance for that transaction to run in between
    Burst,
}

struct DaemonH {
    ent: VariableID,
    prim_tx: mpsc::Sender<UserPrimitive>,
    ind_rx: mpsc::Receiver<Indication>,
    in_tx: mpsc::Sender<PDU>,
    take_tx: mpsc::UnboundedSender<()>,
    out_rx: mpsc::UnboundedReceiver<(VariableID, PDU)>,
    task: tokio::task::JoinHandle<bool>,
    root: PathBuf,
}

struct Flight {
    to: usize,
    bytes: Vec<u8>,
}

struct Twin {
    id: TransactionID,
    spec: TxnSpec,
    world: World,
    exited_s: bool,
    exited_r: bool,
}

pub fn ind_id(i: &Indication) -> TransactionID {
    match i {
        Indication::Transaction(id) | Indication::EoFSent(id) | Indication::EoFRecv(id) => *id,
        Indication::Finished(f) => f.id,
        Indication::MetadataRecv(m) => m.id,
        Indication::FileSegmentRecv(f) => f.id,
        Indication::Suspended(s) => s.id,
        Indication::Resumed(r) => r.id,
        Indication::Report(r) => r.id,
        Indication::Fault(f) | Indication::Abandon(f) => f.id,
    }
}

fn ent(i: usize) -> VariableID {
    VariableID::from((i + 1) as u16)
}

fn entity_config(cfg: &Scenario) -> EntityConfig {
    EntityConfig {
        fault_handler_override: cfg.handler_map(),
        file_size_segment: cfg.seg,
        default_transaction_max_count: cfg.max_count,
        inactivity_timeout: cfg.t_inact,
        ack_timeout: cfg.t_ack,
        nak_timeout: cfg.t_nak,
        crc_flag: if cfg.crc { CRCFlag::Present } else { CRCFlag::NotPresent },
        closure_requested: cfg.closure,
        checksum_type: cfg.checksum_type(),
        nak_procedure: cfg.nak_procedure(),
    }
}

pub struct RunResult {
    /// number of enabled actions at each choice point, and the choice taken
    pub points: Vec<(usize, usize)>,
    pub acts: Vec<String>,
    pub divergence: Option<String>,
    pub violations: Vec<(String, String, String)>, // (clause, sig, detail)
    pub completed: bool,
    pub steps: usize,
    pub real_steps_validated: usize,
}

struct Exec {
    scn: DScn,
    d: Vec<DaemonH>,
    trace: TraceBuf,
    inflight: Vec<Flight>,
    slot_expect: Vec<VecDeque<Vec<u8>>>,
    twins: Vec<Twin>,
    pending_cmd: HashMap<(usize, TransactionID), VecDeque<PDU>>, // by (daemon the PDU was injected into, id)
    ghost: HashMap<TransactionID, (u64, bool)>, // stray-spawned receivers: (ms of last delivery, exited)
    next_put: usize,
    user_used: Vec<bool>,
    strays_left: usize,
    bursts_left: usize,
    ids: Vec<TransactionID>,
    dir: PathBuf,
    t0: tokio::time::Instant,
    validated: usize,
    violations: Vec<(String, String, String)>,
    stray_menu_len: usize,
    finished_pdus: Vec<(usize, Vec<u8>)>, // (destination daemon, bytes) of everything ever delivered
    initial_inds: Vec<String>,
    sent_pdus: Vec<(usize, Vec<u8>)>, // (originating daemon, bytes) of everything ever taken from a slot
    /// ids of stray *responses* (direction ToSender) of unknown transactions: nothing may ever run for them
    no_txn_for: Vec<TransactionID>,
    /// encodings of the PDUs the link dropped
    dropped: Vec<Vec<u8>>,
    /// (daemon, transaction) pairs suspended by their user and not yet resumed
    suspended: std::collections::HashSet<(usize, TransactionID)>,
    /// time was let pass to a timer expiry while PDUs were in flight (a link delay longer than a timer)
    delayed: bool,
    /// per (transaction, role): task loops started / ended, as reported by hook H5
    loops: HashMap<(TransactionID, &'static str), (u32, u32)>,
    /// (daemon, encoding) -> virtual ms of the last time this daemon handed these octets to its transport
    emitted_at: HashMap<(usize, Vec<u8>), u64>,
    /// (daemon, transaction) -> virtual ms of the last PDU handed to that daemon for it
    delivered_at: HashMap<(usize, TransactionID), u64>,
    /// (daemon, transaction) -> conditions its user has been told so far (Finished / Fault / Abandon)
    told: HashMap<(usize, TransactionID), Vec<Condition>>,
    /// (daemon, transaction) whose user has been told a complete, error-free delivery
    success_told: std::collections::HashSet<(usize, TransactionID)>,
    /// an entity gave up on one of its limits while some transaction was suspended by its user
    /// (for that entity the suspension was a delay longer than its timers: C02's premise is gone)
    gave_up_during_suspension: bool,
}

thread_local! {
    static EDIR: PathBuf = {
        static N: std::sync::atomic::AtomicUsize = std::sync::atomic::AtomicUsize::new(0);
        let d = scratch_base().join(format!("e{}", N.fetch_add(1, std::sync::atomic::Ordering::SeqCst)));
        let _ = std::fs::create_dir_all(&d);
        d
    };
}

fn file_bytes(size: u64, salt: usize) -> Vec<u8> {
    (0..size as usize).map(|i| (0x21 + salt as u32 * 37 + (i as u32 * 7) % 0x5f) as u8).collect()
}

impl Exec {
    async fn new(scn: DScn) -> Exec {
        let dir = EDIR.with(|d| d.clone());
        let _ = std::fs::remove_dir_all(&dir);
        let _ = std::fs::create_dir_all(&dir);
        let trace: TraceBuf = std::rc::Rc::new(std::cell::RefCell::new(vec![]));
        install_trace(Some(trace.clone()));
        let mut d = vec![];
        for i in 0..scn.daemons {
            let root = dir.join(format!("d{}", i));
            std::fs::create_dir_all(&root).unwrap();
            let (prim_tx, prim_rx) = mpsc::channel(100);
            let (ind_tx, ind_rx) = mpsc::channel(10_000);
            let (in_tx, in_rx) = mpsc::channel(100);
            let (take_tx, take_rx) = mpsc::unbounded_channel();
            let (out_tx, out_rx) = mpsc::unbounded_channel();
            let transport: Box<dyn PDUTransport + Send> = Box::new(CtlTransport { in_rx, take_rx, out_tx });
            let peers: Vec<VariableID> = (0..scn.daemons).filter(|j| *j != i).map(ent).collect();
            let mut map = HashMap::new();
            map.insert(peers, transport);
            let fs = Arc::new(NativeFileStore::new(camino::Utf8Path::new(root.to_str().unwrap())));
            let (per_entity, default) = match &scn.default_cfg {
                Some(dflt) => ((0..scn.daemons).filter(|j| *j != i).map(|j| (ent(j), entity_config(&scn.cfg))).collect::<HashMap<_, _>>(), entity_config(dflt)),
                None => (HashMap::new(), entity_config(&scn.cfg)),
            };
            let mut daemon = Daemon::new(ent(i), scn.seq_start.unwrap_or(VariableID::from(SEQ)), map, fs, per_entity, default, prim_rx, ind_tx);
            let task = tokio::spawn(async move { daemon.manage_transactions().await.is_ok() });
            d.push(DaemonH { ent: ent(i), prim_tx, ind_rx, in_tx, take_tx, out_rx, task, root });
        }
        // source files
        for (k, t) in scn.txns.iter().enumerate() {
            if scn.src_symlink {
                std::fs::write(d[t.from].root.join(format!("real-src{}.bin", k)), file_bytes(t.size, k)).unwrap();
                std::os::unix::fs::symlink(format!("real-src{}.bin", k), d[t.from].root.join(format!("src{}.bin", k))).unwrap();
            } else {
                std::fs::write(d[t.from].root.join(format!("src{}.bin", k)), file_bytes(t.size, k)).unwrap();
            }
        }
        // files the scenario wants present in the receivers' roots (filestore requests act on them)
        for t in scn.txns.iter() {
            for (name, content) in &scn.cfg.pre_files {
                let p = d[t.to].root.join(name);
                if let Some(parent) = p.parent() {
                    let _ = std::fs::create_dir_all(parent);
                }
                std::fs::write(p, content).unwrap();
            }
        }
        let n = scn.daemons;
        let nu = scn.user.len();
        Exec {
            d,
            trace,
            inflight: vec![],
            slot_expect: (0..n).map(|_| VecDeque::new()).collect(),
            twins: vec![],
            pending_cmd: HashMap::new(),
            ghost: HashMap::new(),
            next_put: 0,
            user_used: vec![false; nu],
            strays_left: if scn.strays { 1 } else { 0 },
            bursts_left: if scn.bursts { 1 } else { 0 },
            ids: vec![],
            dir,
            t0: tokio::time::Instant::now(),
            validated: 0,
            violations: vec![],
            stray_menu_len: 10,
            sent_pdus: vec![],
            finished_pdus: vec![],
            initial_inds: vec![],
            no_txn_for: vec![],
            dropped: vec![],
            suspended: Default::default(),
            delayed: false,
            loops: HashMap::new(),
            emitted_at: HashMap::new(),
            delivered_at: HashMap::new(),
            told: HashMap::new(),
            gave_up_during_suspension: false,
            success_told: Default::default(),
            scn,
        }
    }

    fn now_ms(&self) -> u64 {
        tokio::time::Instant::now().duration_since(self.t0).as_millis() as u64
    }

    fn daemon_of(&self, e: &VariableID) -> Option<usize> {
        (0..self.scn.daemons).find(|i| ent(*i) == *e)
    }

    fn twin_idx(&self, id: &TransactionID) -> Option<usize> {
        self.twins.iter().position(|t| &t.id == id)
    }

    async fn quiesce(&self) {
        tokio::time::sleep(Duration::from_millis(1)).await;
    }

    /// replay what the real loops did on the twins and compare
    /// replay what the real loops did on the twins and compare; if that fails half-way, what the
    /// users were told is still examined by the direct oracles
    async fn sync(&mut self) -> Result<(), String> {
        let r = self.sync_inner().await;
        if r.is_err() {
            let mut notes: Vec<(usize, Indication)> = vec![];
            for (di, dh) in self.d.iter_mut().enumerate() {
                while let Ok(i) = dh.ind_rx.try_recv() {
                    notes.push((di, i));
                }
            }
            for (di, i) in notes {
                self.note_indication(di, &i);
            }
        }
        r
    }

    async fn sync_inner(&mut self) -> Result<(), String> {
        self.quiesce().await;
        let events: Vec<(TransactionID, &'static str, LoopStep)> = self.trace.borrow_mut().drain(..).collect();
        if events.len() >= 50_000 {
            let last: Vec<String> = events[events.len() - 6..].iter().map(|e| format!("{:?}:{}:{:?}", e.0, e.1, e.2)).collect();
            self.violations.push(("busy-loop".into(), format!("{}:{:?}", events[events.len() - 1].1, events[events.len() - 1].2), format!("a transaction loop of the real daemon spun 50000 times without ever waiting: {:?}", last)));
            return Err("busy loop in a real transaction task".into());
        }
        if std::env::var("VERIF_E2_DEBUG").is_ok() {
            println!("  t={}ms real loop steps: {:?}", self.now_ms(), events.iter().map(|e| format!("{}:{:?}", e.1, e.2)).collect::<Vec<_>>());
        }
        let mut twin_inds: Vec<String> = self.initial_inds.drain(..).collect();
        let mut timeouts_seen: Vec<(usize, Side)> = vec![];
        for (id, role, step) in events {
            match step {
                LoopStep::Spawned(_) => self.loops.entry((id, role)).or_insert((0, 0)).0 += 1,
                LoopStep::Exit => self.loops.entry((id, role)).or_insert((0, 0)).1 += 1,
                _ => {}
            }
            let side = if role == "send" { Side::S } else { Side::R };
            let Some(ti) = self.twin_idx(&id) else {
                if self.no_txn_for.contains(&id) {
                    if !self.violations.iter().any(|v| v.0 == "stray-response-started-transaction") {
                        self.violations.push(("stray-response-started-transaction".into(), role.to_string(), format!("a response PDU (direction: to sender) of the unknown transaction {:?} was not discarded: a {} transaction is running for it ({:?})", id, role, step)));
                    }
                    continue;
                }
                // a receive transaction started by a stray / replayed PDU
                match step {
                    LoopStep::Spawned(_) => {
                        self.ghost.insert(id, (self.now_ms(), false));
                    }
                    LoopStep::Pdu => {
                        let now = self.now_ms();
                        self.pop_pending(None, &id);
                        if let Some(g) = self.ghost.get_mut(&id) {
                            g.0 = now;
                        }
                    }
                    LoopStep::Exit => {
                        if let Some(g) = self.ghost.get_mut(&id) {
                            g.1 = true;
                        }
                    }
                    _ => {}
                }
                continue;
            };
            // a receive task that died of an error is replaced by the daemon on the next PDU
            if side == Side::R && self.twins[ti].world.life(Side::R) == Life::Dead && matches!(step, LoopStep::Spawned(_)) {
                self.twins[ti].world.respawn_receiver();
                continue;
            }
            // a replayed PDU of a finished transaction starts a new receive transaction with the same id
            let twin_over = self.twins[ti].world.life(side).over();
            if twin_over && side == Side::R && (self.twins[ti].exited_r) {
                match step {
                    LoopStep::Spawned(_) => {
                        self.ghost.insert(id, (self.now_ms(), false));
                    }
                    LoopStep::Pdu => {
                        let now = self.now_ms();
                        self.pop_pending(None, &id);
                        if let Some(g) = self.ghost.get_mut(&id) {
                            g.0 = now;
                        }
                    }
                    LoopStep::Exit => {
                        if let Some(g) = self.ghost.get_mut(&id) {
                            g.1 = true;
                        }
                    }
                    _ => {}
                }
                continue;
            }
            let ext = match &step {
                LoopStep::Spawned(_) => None,
                LoopStep::Send => Some(ExtEv::Send(side)),
                LoopStep::Pdu => {
                    // the daemon routes by (source entity, sequence number) only: a reflected PDU
                    // reaches the send transaction of that id, whatever its direction flag says
                    let dmn = if role == "send" { self.twins[ti].spec.from } else { self.twins[ti].spec.to };
                    let p = self.pop_pending(Some(dmn), &id);
                    match p {
                        Some(p) => Some(ExtEv::Deliver(side, p)),
                        None => return Err(format!("the real {} transaction {:?} processed a PDU the explorer did not inject", role, id)),
                    }
                }
                LoopStep::Cancel => Some(ExtEv::User(side, UserOp::Cancel)),
                LoopStep::Suspend => Some(ExtEv::User(side, UserOp::Suspend)),
                LoopStep::Resume => Some(ExtEv::User(side, UserOp::Resume)),
                LoopStep::Report => Some(ExtEv::User(side, UserOp::Report)),
                LoopStep::Prompt(NakOrKeepAlive::Nak) => Some(ExtEv::User(side, UserOp::PromptNak)),
                LoopStep::Prompt(NakOrKeepAlive::KeepAlive) => Some(ExtEv::User(side, UserOp::PromptKeepAlive)),
                LoopStep::Abandon => None,
                LoopStep::Timeout => Some(ExtEv::Timeout(side)),
                LoopStep::Exit => {
                    let t = &mut self.twins[ti];
                    if !t.world.life(side).over() {
                        return Err(format!("the real {} transaction {:?} left its loop but its twin is {:?}", role, id, t.world.life(side)));
                    }
                    match side {
                        Side::S => t.exited_s = true,
                        Side::R => t.exited_r = true,
                    }
                    None
                }
            };
            if let Some(ext) = ext {
                let t = &mut self.twins[ti];
                if !t.world.life(side).live() && !(side == Side::R && t.world.life(side) == Life::NotCreated && matches!(ext, ExtEv::Deliver(..))) {
                    return Err(format!("the real {} transaction {:?} took step {:?} but its twin is {:?}", role, id, step, t.world.life(side)));
                }
                if let ExtEv::Send(_) = ext {
                    if !t.world.has_pdu(side) {
                        return Err(format!("the real {} transaction {:?} sent a PDU but its twin has nothing to send", role, id));
                    }
                }
                if let ExtEv::Timeout(_) = ext {
                    // two timers of one transaction a few ms apart: the real loop handles them one by
                    // one, the twin (which runs a few ms behind) sees both expired at its first
                    // call. The comparison is ambiguous: the schedule is pruned, not judged.
                    if timeouts_seen.contains(&(ti, side)) {
                        return Err("AMBIGUOUS-TIMERS".into());
                    }
                    // the twin runs a few ms behind the real transaction (its steps are applied
                    // after the real ones): let its timer expire too; more than 50 ms means the
                    // real timer fired early
                    match t.world.until(side) {
                        Some(u) if u <= Duration::from_millis(50) => {
                            if !u.is_zero() {
                                tokio::time::sleep(u).await;
                            }
                        }
                        other => return Err(format!("the real {} transaction {:?} handled a timeout but its twin's next expiry is {:?} away", role, id, other)),
                    }
                    timeouts_seen.push((ti, side));
                }
                let rec = t.world.apply_ext(&ext).await;
                if std::env::var("VERIF_E2_DEBUG").is_ok() {
                    println!("    twin: {}", step_brief(&rec));
                }
                self.validated += 1;
                if let Some((s, p)) = &rec.panic {
                    self.violations.push(("panic".into(), format!("{:?}", s), format!("handler panicked on the twin: {}", p)));
                }
                for (_, i) in &rec.inds {
                    twin_inds.push(format!("{:?}", i));
                }
                if let ExtEv::Send(_) = ext {
                    let dmn = if side == Side::S { t.spec.from } else { t.spec.to };
                    // (a SEND branch may end without a PDU, e.g. when send_naks raises the NAK limit
                    // fault instead: the permit is dropped and the slot stays free)
                    if let Some((_, p)) = rec.out.first() {
                        self.slot_expect[dmn].push_back(p.clone().encode());
                    }
                }
            }
        }
        // every PDU for the receiving side of one of the transactions, once inside the destination
        // daemon, is handed to a transaction — the one that exists, or one started for it. (The twin
        // is driven by what the real loops did; a PDU the daemon silently drops would otherwise
        // leave no trace at all.)
        for t in &self.twins {
            // (what the daemon does with PDUs of a transaction that has ended is its own business)
            let r = t.world.life(Side::R);
            if !(r == Life::NotCreated || r.live()) || t.exited_r {
                continue;
            }
            if let Some(q) = self.pending_cmd.get(&(t.spec.to, t.id)) {
                if let Some(p) = q.iter().find(|p| p.header.direction == Direction::ToReceiver) {
                    return Err(format!("daemon {} did not hand {} of transaction {:?} to any transaction", t.spec.to, pdu_brief(p), t.id));
                }
            }
        }
        // indications of the real daemons. A ghost receiver (same id, started by a late PDU after the
        // receiver had ended) raises indications of its own: for such ids the twin's indications
        // must be contained in the real ones, for all others the multisets must be equal.
        let mut real_inds: Vec<(bool, String)> = vec![];
        let mut notes: Vec<(usize, Indication)> = vec![];
        for (di, dh) in self.d.iter_mut().enumerate() {
            while let Ok(i) = dh.ind_rx.try_recv() {
                let id = ind_id(&i);
                notes.push((di, i.clone()));
                if let Some(t) = self.twins.iter().find(|t| t.id == id) {
                    let ghosted = di == t.spec.to && self.ghost.contains_key(&id);
                    if di == t.spec.from || di == t.spec.to {
                        real_inds.push((ghosted, format!("{:?}", i)));
                    }
                }
            }
        }
        for (di, i) in notes {
            self.note_indication(di, &i);
        }
        let mut strict: Vec<String> = real_inds.iter().filter(|x| !x.0).map(|x| x.1.clone()).collect();
        let mut loose: Vec<String> = real_inds.iter().filter(|x| x.0).map(|x| x.1.clone()).collect();
        // twin indications not matched by a strict real one must be found among the loose ones
        let mut unmatched_twin = vec![];
        for ti in &twin_inds {
            if let Some(p) = strict.iter().position(|x| x == ti) {
                strict.remove(p);
            } else if let Some(p) = loose.iter().position(|x| x == ti) {
                loose.remove(p);
            } else {
                unmatched_twin.push(ti.clone());
            }
        }
        if !strict.is_empty() || !unmatched_twin.is_empty() {
            return Err(format!("indications differ: only real {:?}; only twin {:?}", strict, unmatched_twin));
        }
        // completeness: whatever the loop model says is due now, the real loop must have done
        for t in &self.twins {
            for side in [Side::S, Side::R] {
                if !t.world.life(side).live() {
                    continue;
                }
                let dmn = if side == Side::S { t.spec.from } else { t.spec.to };
                if t.world.has_pdu(side) && self.slot_expect[dmn].is_empty() {
                    return Err(format!("twin of {:?} ({:?}) has a PDU to send and the transport slot is free, but the real transaction did not send", t.id, side));
                }
                if t.world.until(side) == Some(Duration::ZERO) {
                    return Err(format!("twin of {:?} ({:?}) has an expired timer that the real transaction did not handle", t.id, side));
                }
            }
        }
        Ok(())
    }

    fn pop_pending(&mut self, daemon: Option<usize>, id: &TransactionID) -> Option<PDU> {
        match daemon {
            Some(d) => self.pending_cmd.get_mut(&(d, *id)).and_then(|q| q.pop_front()),
            None => {
                let key = self.pending_cmd.iter().filter(|(k, q)| k.1 == *id && !q.is_empty()).map(|(k, _)| *k).min_by_key(|k| k.0);
                key.and_then(|k| self.pending_cmd.get_mut(&k).and_then(|q| q.pop_front()))
            }
        }
    }

    fn stray_pdu(&self, daemon: usize, k: usize) -> Option<PDU> {
        let other = (daemon + 1) % self.scn.daemons;
        let hdr = |dir: Direction, src: VariableID, dst: VariableID, seq: u16, ty: PDUType, len: u16| PDUHeader {
            version: U3::One,
            pdu_type: ty,
            direction: dir,
            transmission_mode: TransmissionMode::Acknowledged,
            crc_flag: CRCFlag::NotPresent,
            large_file_flag: FileSizeFlag::Small,
            pdu_data_field_length: len,
            segmentation_control: SegmentationControl::NotPreserved,
            segment_metadata_flag: SegmentedData::NotPresent,
            source_entity_id: src,
            transaction_sequence_number: VariableID::from(seq),
            destination_entity_id: dst,
        };
        let mk = |dir, src, dst, seq, payload: PDUPayload| {
            let ty = match &payload {
                PDUPayload::FileData(_) => PDUType::FileData,
                _ => PDUType::FileDirective,
            };
            let len = payload.encoded_len(FileSizeFlag::Small);
            PDU { header: hdr(dir, src, dst, seq, ty, len), payload }
        };
        let me = ent(daemon);
        let peer = ent(other);
        match k {
            // responses addressed to a sender that does not exist (this daemon as source, unknown sequence number)
            0 => Some(mk(
                Direction::ToSender,
                me,
                peer,
                99,
                PDUPayload::Directive(Operations::Ack(PositiveAcknowledgePDU { directive: PDUDirective::EoF, directive_subtype_code: ACKSubDirective::Other, condition: Condition::NoError, transaction_status: TransactionStatus::Active })),
            )),
            1 => Some(mk(
                Direction::ToSender,
                me,
                peer,
                98,
                PDUPayload::Directive(Operations::Nak(NegativeAcknowledgmentPDU { start_of_scope: 0, end_of_scope: 16, segment_requests: vec![SegmentRequestForm { start_offset: 0, end_offset: 16 }] })),
            )),
            2 => Some(mk(
                Direction::ToSender,
                me,
                peer,
                97,
                PDUPayload::Directive(Operations::Finished(Finished { condition: Condition::NoError, delivery_code: DeliveryCode::Complete, file_status: FileStatusCode::Retained, filestore_response: vec![], fault_location: None })),
            )),
            // a PDU naming an entity for which no transport exists
            3 => Some(mk(Direction::ToReceiver, VariableID::from(77u16), me, 5, PDUPayload::FileData(FileDataPDU::Unsegmented(UnsegmentedFileData { offset: 0, file_data: vec![1, 2, 3] })))),
            // file data for an unknown id: starts a receive transaction that must end by its own limits
            4 => Some(mk(Direction::ToReceiver, peer, me, 55, PDUPayload::FileData(FileDataPDU::Unsegmented(UnsegmentedFileData { offset: 0, file_data: vec![9; 8] })))),
            // replay of a PDU that was delivered to this daemon before
            5 => self.finished_pdus.iter().find(|(dd, _)| *dd == daemon).and_then(|(_, b)| PDU::decode(&mut b.as_slice()).ok()),
            // a PDU this daemon sent itself, reflected back to it (looped-back link)
            6 => self.sent_pdus.iter().find(|(dd, _)| *dd == daemon).and_then(|(_, b)| PDU::decode(&mut b.as_slice()).ok()),
            7 => self.sent_pdus.iter().rev().find(|(dd, _)| *dd == daemon).and_then(|(_, b)| PDU::decode(&mut b.as_slice()).ok()),
            // misrouted responses: direction "to sender", but the transaction's source is the
            // peer (or an entity nobody knows), not this daemon, and no such transaction exists here
            8 => Some(mk(
                Direction::ToSender,
                peer,
                me,
                96,
                PDUPayload::Directive(Operations::Ack(PositiveAcknowledgePDU { directive: PDUDirective::EoF, directive_subtype_code: ACKSubDirective::Other, condition: Condition::NoError, transaction_status: TransactionStatus::Active })),
            )),
            9 => Some(mk(
                Direction::ToSender,
                VariableID::from(77u16),
                peer,
                95,
                PDUPayload::Directive(Operations::Finished(Finished { condition: Condition::NoError, delivery_code: DeliveryCode::Complete, file_status: FileStatusCode::Retained, filestore_response: vec![], fault_location: None })),
            )),
            _ => None,
        }
    }

    fn enabled(&self) -> Vec<Act> {
        let mut v = vec![];
        if self.next_put < self.scn.txns.len() {
            v.push(Act::Put(self.next_put));
        }
        let mut slots_full = false;
        for dmn in 0..self.scn.daemons {
            if !self.slot_expect[dmn].is_empty() {
                v.push(Act::Take(dmn));
                slots_full = true;
            }
        }
        for k in 0..self.inflight.len() {
            if k == 0 || (self.scn.overtake && k < 4) {
                v.push(Act::Deliver(k));
            }
        }
        // time: the earliest twin expiry; a ghost receiver ends by its inactivity limit
        let mut min: Option<Duration> = None;
        for t in &self.twins {
            for side in [Side::S, Side::R] {
                if let Some(u) = t.world.until(side) {
                    min = Some(min.map_or(u, |m| m.min(u)));
                }
            }
        }
        let ghosts_alive = self.ghost.values().any(|g| !g.1);
        if (min.is_some() || ghosts_alive) && !slots_full && (self.inflight.is_empty() || self.scn.delay) {
            v.push(Act::Advance);
        }
        if !self.inflight.is_empty() {
            if self.scn.drops {
                v.push(Act::Drop(0));
            }
            if self.scn.dups {
                v.push(Act::Dup(0));
            }
        }
        for (i, (ti, side, op)) in self.scn.user.iter().enumerate() {
            if self.user_used[i] {
                continue;
            }
            let Some(t) = self.twins.get(*ti) else { continue };
            let life = t.world.life(*side);
            let ok = life.live()
                && match op {
                    UserOp::Suspend => life == Life::Active,
                    UserOp::Resume => life == Life::Suspended,
                    UserOp::PromptNak | UserOp::PromptKeepAlive => *side == Side::S,
                    _ => true,
                };
            if ok {
                v.push(Act::User(i));
            }
        }
        if self.bursts_left > 0 && !self.inflight.is_empty() {
            v.push(Act::Burst);
        }
        if self.strays_left > 0 {
            for dmn in 0..self.scn.daemons.min(2) {
                for k in 0..self.stray_menu_len {
                    if self.stray_pdu(dmn, k).is_some() {
                        v.push(Act::Stray(dmn, k));
                    }
                }
            }
        }
        v
    }

    /// direct (twin-independent) oracles on what a daemon tells its user
    fn note_indication(&mut self, di: usize, i: &Indication) {
        let id = ind_id(i);
        // C04 at daemon level: once the receiving user has been told a complete delivery, the
        // same receive task tells it nothing more about the file of that transaction (a receiver started
        // afresh by a late duplicate is a different matter and speaks for itself)
        if self.twins.iter().any(|t| t.id == id && t.spec.to == di) && !self.ghost.contains_key(&id) {
            // (limit faults of the closing handshake may still follow a success: what must not
            // follow is a second delivery or a verdict on the file's integrity)
            let about_the_file = |c: &Condition| matches!(c, Condition::NoError | Condition::FileChecksumFailure | Condition::FilesizeError | Condition::FileStoreRejection);
            let again = match i {
                Indication::Finished(f) if about_the_file(&f.report.condition) => Some(format!("Finished({:?},{:?})", f.report.condition, f.delivery_code)),
                Indication::Fault(f) if about_the_file(&f.condition) => Some(format!("Fault({:?})", f.condition)),
                _ => None,
            };
            if let (Some(what), true) = (&again, self.success_told.contains(&(di, id))) {
                if !self.violations.iter().any(|v| v.0 == "report-after-success") {
                    self.violations.push(("report-after-success".into(), what.split('(').next().unwrap_or("").to_string(), format!("the receiving user of transaction {:?} had been told NoError/Complete and is now told {}", id, what)));
                }
            }
            if let Indication::Finished(f) = i {
                if f.report.condition == Condition::NoError && f.delivery_code == DeliveryCode::Complete {
                    self.success_told.insert((di, id));
                }
            }
        }
        match i {
            Indication::Finished(f) => self.told.entry((di, id)).or_default().push(f.report.condition),
            Indication::Abandon(f) | Indication::Fault(f) => {
                self.told.entry((di, id)).or_default().push(f.condition);
                if !self.suspended.is_empty() && matches!(f.condition, Condition::InactivityDetected | Condition::PositiveLimitReached | Condition::NakLimitReached | Condition::CheckLimitReached) {
                    self.gave_up_during_suspension = true;
                }
            }
            _ => {}
        }
    }

    /// direct (twin-independent) oracles on a PDU a daemon hands to its transport
    fn note_emission(&mut self, dmn: usize, p: &PDU, bytes: &Vec<u8>) {
        // direct oracles on what a daemon hands to its transport.
        // C17: the same octets again, with nothing received for that transaction in between,
        // is a timer retransmission — never earlier than the configured timeout of that timer
        {
            let id = TransactionID(p.header.source_entity_id, p.header.transaction_sequence_number);
            let now = self.now_ms();
            let timeout_s = match p.payload {
                PDUPayload::Directive(Operations::EoF(_)) | PDUPayload::Directive(Operations::Finished(_)) => Some(("positive-acknowledgement", self.scn.cfg.t_ack)),
                PDUPayload::Directive(Operations::Nak(_)) => Some(("NAK", self.scn.cfg.t_nak)),
                _ => None,
            };
            if let (Some((which, t)), Some(prev)) = (timeout_s, self.emitted_at.get(&(dmn, bytes.clone())).copied()) {
                // (Take times stand for send times; PDUs handed over back to back are answered
                // back to back, so anything closer than a second is not a timer's doing)
                let heard_since = self.delivered_at.get(&(dmn, id)).map_or(false, |d| *d > prev);
                if !heard_since && self.twin_idx(&id).is_some() && now >= prev + 1000 && now + 100 < prev + t as u64 * 1000 {
                    self.violations.push(("retransmission-early".into(), pdu_kind_str(p).into(), format!("daemon {} retransmitted {} {} ms after the previous transmission, having received nothing for that transaction in between; the {} timeout is {} s", dmn, pdu_brief(p), now - prev, which, t)));
                }
            }
            self.emitted_at.insert((dmn, bytes.clone()), now);
            // C07: no file data PDU carries more than one configured segment
            if let PDUPayload::FileData(fd) = &p.payload {
                let n = match fd {
                    FileDataPDU::Unsegmented(u) => u.file_data.len(),
                    FileDataPDU::Segmented(sg) => sg.file_data.len(),
                };
                if n > self.scn.cfg.seg as usize && self.twin_idx(&id).is_some() && self.scn.default_cfg.is_none() {
                    self.violations.push(("filedata-exceeds-segment-size".into(), "".into(), format!("daemon {} sent a file data PDU of transaction {:?} carrying {} octets; the configured segment size is {}", dmn, id, n, self.scn.cfg.seg)));
                }
            }
        }
        // direct oracle (C07, daemon level: the Put request is turned into metadata by the
        // daemon, not by the transaction): the sizes stated are those of the source data
        {
            let id = TransactionID(p.header.source_entity_id, p.header.transaction_sequence_number);
            if let (Some(ti), Direction::ToReceiver) = (self.twin_idx(&id), &p.header.direction) {
                let size = self.twins[ti].spec.size;
                if let PDUPayload::Directive(op) = &p.payload {
                    match op {
                        Operations::Metadata(m) if m.file_size != size => {
                            self.violations.push(("metadata-size-wrong".into(), "".into(), format!("the Metadata PDU of transaction {:?} states file size {} but the source holds {} bytes", id, m.file_size, size)));
                        }
                        Operations::Metadata(m) => {
                            let want_src = format!("src{}.bin", ti);
                            let want_dst = if self.scn.empty_dst { String::new() } else { format!("dst{}.bin", ti) };
                            let reqs: Vec<FileStoreRequest> = m
                                .options
                                .iter()
                                .filter_map(|o| match o {
                                    cfdp_core::pdu::MetadataTLV::FileStoreRequest(r) => Some(r.clone()),
                                    _ => None,
                                })
                                .collect();
                            if m.source_filename.as_str() != want_src || m.destination_filename.as_str() != want_dst || reqs != self.scn.cfg.fs_requests() {
                                self.violations.push((
                                    "metadata-fields-wrong".into(),
                                    "".into(),
                                    format!("the Metadata PDU of transaction {:?} carries names {:?} -> {:?} and requests {:?}; the Put request named {:?} -> {:?} with requests {:?}", id, m.source_filename, m.destination_filename, reqs, want_src, want_dst, self.scn.cfg.fs_requests()),
                                ));
                            }
                        }
                        Operations::EoF(e) if e.condition == Condition::NoError && e.file_size != size => {
                            self.violations.push(("eof-size-wrong".into(), "".into(), format!("the EOF PDU of transaction {:?} states file size {} but the source holds {} bytes", id, e.file_size, size)));
                        }
                        _ => {}
                    }
                }
            }
        }
    }

    async fn inject(&mut self, to: usize, bytes: &[u8]) {
        if let Ok(pdu) = PDU::decode(&mut &bytes[..]) {
            let id = TransactionID(pdu.header.source_entity_id, pdu.header.transaction_sequence_number);
            self.pending_cmd.entry((to, id)).or_default().push_back(pdu.clone());
            self.finished_pdus.push((to, bytes.to_vec()));
            let now = self.now_ms();
            self.delivered_at.insert((to, id), now);
            let _ = self.d[to].in_tx.send(pdu).await;
        }
    }

    async fn apply(&mut self, a: &Act) -> Result<(), String> {
        // The counters evaluate their expirations lazily, from the clock, whenever a handler asks —
        // also inside the handling of a PDU. The twin runs 1-2 ms behind the real transaction (and
        // every step costs a millisecond), so a PDU (or a user request) handed over within a few ms of a timer's due
        // time may find that timer expired on one side and not yet on the other: the comparison is
        // ambiguous and the schedule is pruned, not judged.
        if matches!(a, Act::Deliver(_) | Act::Dup(_) | Act::Burst | Act::Stray(_, _) | Act::User(_)) {
            for t in &self.twins {
                for side in [Side::S, Side::R] {
                    if let Some(u) = t.world.until(side) {
                        if u < Duration::from_millis(25) {
                            return Err("AMBIGUOUS-TIMERS (a PDU arrives within the twin's lag of a timer's due time)".into());
                        }
                    }
                }
            }
        }
        match a {
            Act::Put(k) => {
                let spec = self.scn.txns[*k].clone();
                let (tx, rx) = oneshot::channel();
                let req = PutRequest {
                    source_filename: format!("src{}.bin", k).into(),
                    destination_filename: if self.scn.empty_dst { "".into() } else { format!("dst{}.bin", k).into() },
                    destination_entity_id: ent(spec.to),
                    transmission_mode: if spec.ack { TransmissionMode::Acknowledged } else { TransmissionMode::Unacknowledged },
                    filestore_requests: self.scn.cfg.fs_requests(),
                    message_to_user: vec![],
                };
                self.d[spec.from].prim_tx.send(UserPrimitive::Put(req, tx)).await.map_err(|_| "daemon primitive channel closed".to_string())?;
                self.quiesce().await;
                let id = rx.await.map_err(|_| "Put was not answered with a transaction id".to_string())?;
                if self.ids.contains(&id) {
                    self.violations.push(("ids-not-distinct".into(), "".into(), format!("Put returned {:?} twice", id)));
                }
                self.ids.push(id);
                // the twin of this transaction, created at the same virtual instant
                let mut cfg = self.scn.cfg.clone();
                cfg.ack = spec.ack;
                cfg.file_size = Some(spec.size);
                let ids = WorldIds { src_ent: id.0, dst_ent: ent(spec.to), seq: id.1, src_name: format!("src{}.bin", k), dst_name: if self.scn.empty_dst { String::new() } else { format!("dst{}.bin", k) } };
                let mut w = World::new_in(Arc::new(cfg), self.dir.join(format!("twin{}", k)), ids, true);
                // same content as the real source
                w.src = file_bytes(spec.size, *k);
                std::fs::write(self.dir.join(format!("twin{}", k)).join("s").join(format!("src{}.bin", k)), &w.src).unwrap();
                // drain the creation indications of the twin (Transaction + Report)
                let mut first = vec![];
                {
                    // use a no-op external step to collect what World::new spawned
                    tokio::task::yield_now().await;
                    tokio::task::yield_now().await;
                    first.extend(w.take_initial_indications());
                }
                self.twins.push(Twin { id, spec, world: w, exited_s: false, exited_r: false });
                self.next_put += 1;
                // compare creation indications together with the first sync
                self.initial_inds.extend(first.into_iter().map(|i| format!("{:?}", i)));
            }
            Act::Take(dmn) => {
                let _ = self.d[*dmn].take_tx.send(());
                self.quiesce().await;
                let got = self.d[*dmn].out_rx.try_recv().map_err(|_| format!("Take on daemon {}: the transport slot was empty although the twin says a PDU was sent", dmn))?;
                let bytes = got.1.clone().encode();
                self.note_emission(*dmn, &got.1, &bytes);
                let want = self.slot_expect[*dmn].pop_front().ok_or_else(|| "internal: slot bookkeeping".to_string())?;
                if bytes != want {
                    return Err(format!(
                        "PDU leaving daemon {} differs from the twin's: real {} vs twin {}",
                        dmn,
                        pdu_brief(&got.1),
                        PDU::decode(&mut want.as_slice()).map(|p| pdu_brief(&p)).unwrap_or_default()
                    ));
                }
                self.sent_pdus.push((*dmn, bytes.clone()));
                match self.daemon_of(&got.0) {
                    Some(to) => self.inflight.push(Flight { to, bytes }),
                    None => return Err(format!("a PDU was addressed to unknown entity {:?}", got.0)),
                }
            }
            Act::Deliver(k) => {
                let f = self.inflight.remove(*k);
                self.inject(f.to, &f.bytes).await;
            }
            Act::Drop(k) => {
                let f = self.inflight.remove(*k);
                self.dropped.push(f.bytes);
            }
            Act::Burst => {
                self.bursts_left -= 1;
                let f = self.inflight.remove(0);
                // more copies than the command queue holds: 10 slots for a send transaction, 100 for a
                // receive transaction (lib.rs); injected back to back, drained only afterwards
                let to_sender = PDU::decode(&mut f.bytes.as_slice()).map(|p| p.header.direction == Direction::ToSender).unwrap_or(false);
                let copies = if to_sender { 12 } else { 103 };
                for _ in 0..copies {
                    if let Ok(pdu) = PDU::decode(&mut f.bytes.as_slice()) {
                        let id = TransactionID(pdu.header.source_entity_id, pdu.header.transaction_sequence_number);
                        self.pending_cmd.entry((f.to, id)).or_default().push_back(pdu.clone());
                        // the transport's own queue holds 100: refill it as it drains, without sleeping
                        while self.d[f.to].in_tx.try_send(pdu.clone()).is_err() {
                            tokio::task::yield_now().await;
                        }
                    }
                }
                self.finished_pdus.push((f.to, f.bytes.clone()));
            }
            Act::Dup(k) => {
                let (to, bytes) = (self.inflight[*k].to, self.inflight[*k].bytes.clone());
                self.inject(to, &bytes).await;
            }
            Act::Advance => {
                if !self.inflight.is_empty() {
                    self.delayed = true;
                }
                let mut min: Option<Duration> = None;
                let mut dues: Vec<Duration> = vec![];
                for t in &self.twins {
                    for side in [Side::S, Side::R] {
                        if let Some(u) = t.world.until(side) {
                            min = Some(min.map_or(u, |m| m.min(u)));
                            dues.push(u);
                        }
                    }
                }
                // two timers of different transactions or sides due within the twin's lag of each
                // other: which of them the real loops service first (and what each then sees of the
                // other's effects) is not determined at this resolution
                dues.sort();
                if dues.len() >= 2 && dues[1] - dues[0] < Duration::from_millis(25) {
                    return Err("AMBIGUOUS-TIMERS (two timers due within the twin's lag of each other)".into());
                }
                let d = match min {
                    Some(m) => {
                        // nothing may happen early …
                        if m > Duration::from_secs(2) {
                            tokio::time::sleep(m - Duration::from_secs(1)).await;
                            let early: Vec<_> = self.trace.borrow().iter().filter(|e| self.twins.iter().any(|t| t.id == e.0) && !self.ghost.contains_key(&e.0)).cloned().collect();
                            if !early.is_empty() {
                                return Err(format!("a timer fired at least 1 s before the twin's earliest expiry: {:?}", early));
                            }
                            // … and exactly to the twin's expiry (the real timer, started a few ms
                            // earlier, has fired by then): no margin, so the lag cannot accumulate
                            Duration::from_secs(1)
                        } else {
                            m
                        }
                    }
                    None => Duration::from_secs(self.scn.cfg.t_inact as u64),
                };
                tokio::time::sleep(d).await;
            }
            Act::User(i) => {
                self.user_used[*i] = true;
                let (ti, _side, op) = self.scn.user[*i];
                let id = self.twins[ti].id;
                let dmn = match _side {
                    Side::S => self.twins[ti].spec.from,
                    Side::R => self.twins[ti].spec.to,
                };
                match op {
                    UserOp::Suspend => {
                        self.suspended.insert((dmn, id));
                    }
                    UserOp::Resume => {
                        self.suspended.remove(&(dmn, id));
                    }
                    _ => {}
                }
                let prim = match op {
                    UserOp::Cancel => UserPrimitive::Cancel(id),
                    UserOp::Suspend => UserPrimitive::Suspend(id),
                    UserOp::Resume => UserPrimitive::Resume(id),
                    UserOp::PromptNak => UserPrimitive::Prompt(id, NakOrKeepAlive::Nak),
                    UserOp::PromptKeepAlive => UserPrimitive::Prompt(id, NakOrKeepAlive::KeepAlive),
                    UserOp::Report => {
                        let (tx, rx) = oneshot::channel();
                        let _ = self.d[dmn].prim_tx.send(UserPrimitive::Report(id, tx)).await;
                        self.quiesce().await;
                        if rx.await.is_err() {
                            self.violations.push(("report-not-answered".into(), "".into(), format!("Report for live transaction {:?} was not answered", id)));
                        }
                        return Ok(());
                    }
                };
                let _ = self.d[dmn].prim_tx.send(prim).await;
            }
            Act::Stray(dmn, k) => {
                self.strays_left -= 1;
                if let Some(p) = self.stray_pdu(*dmn, *k) {
                    let sid = TransactionID(p.header.source_entity_id, p.header.transaction_sequence_number);
                    if p.header.direction == Direction::ToSender && self.twin_idx(&sid).is_none() {
                        self.no_txn_for.push(sid);
                    }
                    let bytes = p.encode();
                    self.inject(*dmn, &bytes).await;
                    self.quiesce().await;
                    // the daemon must still be there and still serve its user
                    for (i, dh) in self.d.iter().enumerate() {
                        if dh.task.is_finished() {
                            self.violations.push(("daemon-stopped".into(), format!("stray{}", k), format!("daemon {} stopped after stray PDU #{}", i, k)));
                        }
                    }
                    if let Some(t) = self.twins.iter().find(|t| t.world.life(Side::S).live()) {
                        let (tx, rx) = oneshot::channel();
                        let _ = self.d[t.spec.from].prim_tx.send(UserPrimitive::Report(t.id, tx)).await;
                        self.quiesce().await;
                        if rx.await.is_err() {
                            self.violations.push(("report-not-answered".into(), format!("stray{}", k), format!("after stray PDU #{} a Report for live transaction {:?} was not answered", k, t.id)));
                        }
                    }
                }
            }
        }
        Ok(())
    }
}

fn pdu_kind_str(p: &PDU) -> &'static str {
    match &p.payload {
        PDUPayload::FileData(_) => "FileData",
        PDUPayload::Directive(Operations::EoF(_)) => "EOF",
        PDUPayload::Directive(Operations::Finished(_)) => "Finished",
        PDUPayload::Directive(Operations::Nak(_)) => "NAK",
        PDUPayload::Directive(Operations::Metadata(_)) => "Metadata",
        _ => "other",
    }
}

// small extension of World used only here
impl World {
    pub fn take_initial_indications(&mut self) -> Vec<Indication> {
        self.drain_now()
    }
}

/// run one schedule: `prefix` choices, then the default (first enabled action) until the end
pub fn run_schedule(scn: &DScn, prefix: &[usize]) -> RunResult {
    start_watchdog();
    heartbeat(Some((&scn.name, prefix, &[])));
    let rt = tokio::runtime::Builder::new_current_thread().enable_time().start_paused(true).build().unwrap();
    let res = rt.block_on(async {
        let mut ex = Exec::new(scn.clone()).await;
        let mut points = vec![];
        let mut acts = vec![];
        let mut divergence = None;
        let mut completed = false;
        let mut step = 0;
        if let Err(e) = ex.sync().await {
            divergence = Some(e);
        }
        // self-test of the direct oracles (never set by the registered commands): leave the model
        // after n steps on purpose, so that the run-on judgement is exercised on a tree on which
        // nothing is wrong
        let pump_at: Option<usize> = std::env::var("VERIF_E2_PUMP_AT").ok().and_then(|s| s.parse().ok());
        while divergence.is_none() && step < scn.horizon {
            if pump_at == Some(step) {
                divergence = Some("forced (VERIF_E2_PUMP_AT)".into());
                break;
            }
            let en = ex.enabled();
            if en.is_empty() {
                completed = true;
                break;
            }
            let choice = if step < prefix.len() { prefix[step] } else { 0 };
            if choice >= en.len() {
                divergence = Some(format!("replay divergence: choice {} of {} at point {}", choice, en.len(), step));
                break;
            }
            points.push((en.len(), choice));
            let a = en[choice].clone();
            acts.push(format!("{:?}", a));
            heartbeat(Some((&scn.name, prefix, &acts)));
            if std::env::var("VERIF_E2_DEBUG").is_ok() {
                println!("{:?}   (of {:?})", a, en);
            }
            if let Err(e) = ex.apply(&a).await {
                divergence = Some(format!("{} (after {:?})", e, acts));
                break;
            }
            if let Err(e) = ex.sync().await {
                divergence = Some(format!("{} (after {:?})", e, acts));
                break;
            }
            // ghosts must end by their own limits
            let now = ex.now_ms();
            let bound = crate::mons::c03_bound(&scn.cfg);
            for (id, (last, exited)) in ex.ghost.iter() {
                if !*exited && now - *last > bound + 2000 {
                    ex.violations.push(("stray-receiver-never-ends".into(), "".into(), format!("receive transaction {:?} started by a stray PDU is still alive {} ms after its last PDU", id, now - *last)));
                }
            }
            step += 1;
        }
        // ---- direct (twin-independent) judgement of a single transaction on the real daemons.
        // Used when the run left the transaction model (divergence), did not end within the step
        // horizon, or ended with something unexpected sitting in a transport slot. The twin cannot
        // be the judge of the daemon's own layer (routing, spawning, the task loops): the real
        // daemons are left to run on by themselves over a faithful FIFO link for twice the C03
        // bound, and what they did is judged against what C02 / C03 / C19 promise outright.
        let single = scn.txns.len() == 1 && !scn.strays && !scn.bursts && scn.cfg.handlers.is_empty() && scn.cfg.max_count >= 2 && scn.default_cfg.is_none();
        let user_ops: Vec<UserOp> = scn.user.iter().enumerate().filter(|(i, _)| ex.user_used[*i]).map(|(_, u)| u.2).collect();
        let only_suspension = user_ops.iter().all(|o| matches!(o, UserOp::Suspend | UserOp::Resume | UserOp::Report | UserOp::PromptNak | UserOp::PromptKeepAlive));
        let real_divergence = divergence.as_ref().map_or(false, |d| !d.starts_with("AMBIGUOUS-TIMERS") && !d.starts_with("replay divergence"));
        // (1) what sits in the transport slots beyond what the model says was sent
        let mut unexpected: Vec<(usize, PDU)> = vec![];
        // (only where a suspension is in force: elsewhere a receiver started by a late duplicate —
        // whose steps are not modelled — may legitimately have left something there)
        if single && !ex.suspended.is_empty() && ex.ghost.is_empty() && std::env::var("VERIF_E2_NO_PUMP").is_err() {
            for i in 0..ex.d.len() {
                if !ex.suspended.iter().any(|(d, _)| *d == i) {
                    continue;
                }
                let mut expect: VecDeque<Vec<u8>> = ex.slot_expect[i].clone();
                let _ = ex.d[i].take_tx.send(());
                ex.quiesce().await;
                while let Ok((dest, pdu)) = ex.d[i].out_rx.try_recv() {
                    let bytes = pdu.clone().encode();
                    if expect.front() == Some(&bytes) {
                        expect.pop_front();
                    } else {
                        unexpected.push((i, pdu.clone()));
                    }
                    if let Some(j) = ex.daemon_of(&dest) {
                        ex.inflight.push(Flight { to: j, bytes });
                    }
                    let _ = ex.d[i].take_tx.send(());
                    ex.quiesce().await;
                }
            }
            for (dmn, p) in &unexpected {
                let id = TransactionID(p.header.source_entity_id, p.header.transaction_sequence_number);
                let forbidden = matches!(&p.payload, PDUPayload::FileData(_))
                    || matches!(&p.payload, PDUPayload::Directive(Operations::Metadata(_)) | PDUPayload::Directive(Operations::EoF(_)) | PDUPayload::Directive(Operations::Nak(_)) | PDUPayload::Directive(Operations::Finished(_)));
                if ex.suspended.contains(&(*dmn, id)) && forbidden {
                    ex.violations.push(("transmitted-while-suspended".into(), format!("{}", if *dmn == scn.txns[0].from { "S" } else { "R" }), format!("transaction {:?} is suspended by its user at daemon {} and that daemon transmitted {}", id, dmn, pdu_brief(p))));
                } else if divergence.is_none() {
                    divergence = Some(format!("daemon {} transmitted {} which no step of its transaction loops accounts for", dmn, pdu_brief(p)));
                }
            }
        }
        let real_divergence = divergence.as_ref().map_or(false, |d| !d.starts_with("AMBIGUOUS-TIMERS") && !d.starts_with("replay divergence"));
        // (2) let the daemons run on and judge the outcome
        if single && (real_divergence || !completed) && std::env::var("VERIF_E2_NO_PUMP").is_err() {
            let spec = scn.txns[0].clone();
            let id = ex.ids.first().cloned();
            // no PDU lost twice (retransmissions are octet-identical): fewer consecutive losses than the limit of 2
            let loss_premise = (0..ex.dropped.len()).all(|i| (0..i).all(|j| ex.dropped[i] != ex.dropped[j])) && !ex.delayed;
            let was_suspended = user_ops.iter().any(|o| *o == UserOp::Suspend);
            // every suspension ends: the user resumes
            if let Some(id) = id {
                let still: Vec<(usize, TransactionID)> = ex.suspended.iter().cloned().collect();
                for (dmn, sid) in still {
                    if sid == id {
                        let _ = ex.d[dmn].prim_tx.send(UserPrimitive::Resume(id)).await;
                        ex.quiesce().await;
                    }
                }
                ex.suspended.clear();
            }
            let started = tokio::time::Instant::now();
            let deadline = Duration::from_millis(2 * crate::mons::c03_bound(&scn.cfg) + 10_000);
            let flights: Vec<Flight> = ex.inflight.drain(..).collect();
            for f in flights {
                if let Ok(pdu) = PDU::decode(&mut f.bytes.as_slice()) {
                    let _ = ex.d[f.to].in_tx.send(pdu).await;
                    ex.quiesce().await;
                }
            }
            let lossy = user_ops.iter().any(|o| *o == UserOp::Cancel);
            let mut lost_once: std::collections::HashSet<Vec<u8>> = ex.dropped.iter().cloned().collect();
            let mut late_r_conditions: Vec<Condition> = vec![];
            let mut pumped = 0usize;
            while started.elapsed() < deadline && pumped < 100_000 {
                heartbeat(Some((&scn.name, prefix, &acts)));
                let mut moved = false;
                for i in 0..ex.d.len() {
                    let _ = ex.d[i].take_tx.send(());
                    ex.quiesce().await;
                    while let Ok((dest, pdu)) = ex.d[i].out_rx.try_recv() {
                        moved = true;
                        pumped += 1;
                        let b = pdu.clone().encode();
                        ex.note_emission(i, &pdu, &b);
                        // after a cancel the link stays within C10's "any link behaviour" and C02's
                        // premise at once: the first copy of every distinct PDU is lost, every
                        // retransmission (the same octets again) gets through
                        let lose = lossy && lost_once.insert(b.clone());
                        if std::env::var("VERIF_E2_DEBUG").is_ok() {
                            println!("  run-on t={}ms daemon {} emits {}{}", ex.now_ms(), i, pdu_brief(&pdu), if lose { "  (first copy: lost)" } else { "" });
                        }
                        if lose {
                            continue;
                        }
                        if let Some(j) = ex.daemon_of(&dest) {
                            let tid = TransactionID(pdu.header.source_entity_id, pdu.header.transaction_sequence_number);
                            let now = ex.now_ms();
                            ex.delivered_at.insert((j, tid), now);
                        }
                        if let Some(j) = ex.daemon_of(&dest) {
                            let _ = ex.d[j].in_tx.send(pdu).await;
                            ex.quiesce().await;
                        }
                    }
                }
                let evs: Vec<(TransactionID, &'static str, LoopStep)> = ex.trace.borrow_mut().drain(..).collect();
                for (tid, role, st) in evs {
                    match st {
                        LoopStep::Spawned(_) => ex.loops.entry((tid, role)).or_insert((0, 0)).0 += 1,
                        LoopStep::Exit => ex.loops.entry((tid, role)).or_insert((0, 0)).1 += 1,
                        _ => {}
                    }
                }
                // what the receiving user is told from now on
                while let Ok(i) = ex.d[spec.to].ind_rx.try_recv() {
                    if Some(ind_id(&i)) == id {
                        match &i {
                            Indication::Finished(f) => late_r_conditions.push(f.report.condition),
                            Indication::Abandon(f) | Indication::Fault(f) => late_r_conditions.push(f.condition),
                            _ => {}
                        }
                    }
                }
                if !moved {
                    tokio::time::advance(Duration::from_secs(1)).await;
                }
            }
            let why = match &divergence {
                Some(d) => format!("the real daemon had left the transaction model: {}", d),
                None => "the schedule had not ended within the step horizon".to_string(),
            };
            let real = std::fs::read(ex.d[spec.to].root.join("dst0.bin")).ok();
            let cancelled = user_ops.iter().any(|o| *o == UserOp::Cancel);
            if spec.ack && loss_premise && only_suspension && !ex.gave_up_during_suspension && real.as_deref() != Some(file_bytes(spec.size, 0).as_slice()) {
                ex.violations.push((
                    if was_suspended { "transfer-not-completed-after-resume" } else { "transfer-not-completed" }.into(),
                    "single-acknowledged-transaction".into(),
                    format!(
                        "acknowledged transfer of {} bytes with no PDU lost twice and nothing delayed{}: the real daemons were left running for {} virtual seconds over a faithful link and the destination file is {} ({})",
                        spec.size,
                        if was_suspended { ", suspended and resumed by its user" } else { "" },
                        deadline.as_secs(),
                        match &real {
                            None => "absent".to_string(),
                            Some(b) => format!("{} bytes, not the source", b.len()),
                        },
                        why
                    ),
                ));
            }
            // whatever happened, every task loop of the transaction has ended by now (twice C03's bound)
            if let Some(id) = id {
                let alive: Vec<&str> = ["send", "recv"].into_iter().filter(|r| ex.loops.get(&(id, *r)).map_or(false, |c| c.0 > c.1)).collect();
                if !alive.is_empty() {
                    ex.violations.push((
                        "transaction-never-ends".into(),
                        alive.join("+"),
                        format!("{} virtual seconds after the last scheduled event, with every suspension resumed, the {} task loop of transaction {:?} is still running ({})", deadline.as_secs(), alive.join(" and the "), id, why),
                    ));
                }
            }
            // a cancel at the sender reaches a reachable receiver: what the receiving user is told
            // afterwards is the cancel, not a limit of its own
            let cancel_at_s = scn.user.iter().enumerate().any(|(i, u)| ex.user_used[i] && u.2 == UserOp::Cancel && u.1 == Side::S);
            if let Some(id) = id {
                let mut all = ex.told.get(&(spec.to, id)).cloned().unwrap_or_default();
                all.extend(late_r_conditions.iter().cloned());
                late_r_conditions = all;
            }
            if cancelled && cancel_at_s && loss_premise && !late_r_conditions.is_empty() && !late_r_conditions.iter().any(|c| matches!(c, Condition::CancelReceived | Condition::NoError)) {
                ex.violations.push((
                    "cancel-not-propagated".into(),
                    format!("{:?}", late_r_conditions[0]),
                    format!("the sending user cancelled, no PDU was lost twice and nothing was delayed, yet the receiving user is told {:?} and never the cancel ({})", late_r_conditions, why),
                ));
            }
        }
        // end-of-run oracles
        if divergence.is_none() && completed {
            for (i, dh) in ex.d.iter().enumerate() {
                if dh.task.is_finished() {
                    ex.violations.push(("daemon-stopped".into(), "end".into(), format!("daemon {} is not running at the end of the schedule", i)));
                }
            }
            for (k, t) in ex.twins.iter().enumerate() {
                let real = std::fs::read(ex.d[t.spec.to].root.join(format!("dst{}.bin", k))).ok();
                let twin = std::fs::read(ex.dir.join(format!("twin{}", k)).join("r").join(format!("dst{}.bin", k))).ok();
                // (a receiver started afresh by late duplicates may deliver the file on its own:
                // the twin has no such second receiver)
                if real != twin && !ex.ghost.contains_key(&t.id) {
                    divergence = Some(format!("destination file of transaction {} differs between the real daemon ({:?}) and its twin ({:?})", k, real.map(|b| hex(&b)), twin.map(|b| hex(&b))));
                }
                for side in [Side::S, Side::R] {
                    let over = t.world.life(side).over() || t.world.life(side) == Life::NotCreated;
                    let exited = if side == Side::S { t.exited_s } else { t.exited_r };
                    if over != (exited || t.world.life(side) == Life::NotCreated) && t.world.life(side) != Life::Dead {
                        divergence = Some(format!("transaction {} {:?}: twin over={} real loop exited={}", k, side, over, exited));
                    }
                }
            }
            // user requests that name a transaction which has ended, or one that never existed, leave
            // the daemon running (the Put below must still be accepted)
            {
                let mut ids: Vec<(usize, TransactionID)> = ex.twins.iter().map(|t| (t.spec.from, t.id)).collect();
                ids.extend(ex.twins.iter().map(|t| (t.spec.to, t.id)));
                ids.push((0, TransactionID(VariableID::from(99u16), VariableID::from(1234u16))));
                for (dmn, id) in ids {
                    for prim in [
                        UserPrimitive::Cancel(id),
                        UserPrimitive::Suspend(id),
                        UserPrimitive::Resume(id),
                        UserPrimitive::Prompt(id, NakOrKeepAlive::Nak),
                        UserPrimitive::Report(id, oneshot::channel().0),
                    ] {
                        let _ = ex.d[dmn].prim_tx.send(prim).await;
                    }
                    ex.quiesce().await;
                }
                for (i, dh) in ex.d.iter().enumerate() {
                    if dh.task.is_finished() {
                        ex.violations.push(("daemon-stopped".into(), "late-user-request".into(), format!("daemon {} stopped after user requests naming ended / unknown transactions", i)));
                    }
                }
            }
            // a fire-and-forget Put (its reply is never read) is given an identifier of its own
            if let Some(spec) = scn.txns.first() {
                let (tx0, rx0) = oneshot::channel();
                drop(rx0);
                let req0 = PutRequest {
                    source_filename: "src0.bin".into(),
                    destination_filename: "forget.bin".into(),
                    destination_entity_id: ent(spec.to),
                    transmission_mode: TransmissionMode::Unacknowledged,
                    filestore_requests: vec![],
                    message_to_user: vec![],
                };
                while ex.d[spec.from].ind_rx.try_recv().is_ok() {}
                let _ = ex.d[spec.from].prim_tx.send(UserPrimitive::Put(req0, tx0)).await;
                ex.quiesce().await;
                while let Ok(i) = ex.d[spec.from].ind_rx.try_recv() {
                    if let Indication::Transaction(id) = i {
                        if ex.ids.contains(&id) {
                            ex.violations.push(("ids-not-distinct".into(), "end".into(), format!("a Put whose reply was not awaited was given {:?} again", id)));
                        }
                        ex.ids.push(id);
                    }
                }
            }
            // a new Put is still accepted
            if let Some(spec) = scn.txns.first() {
                let (tx, rx) = oneshot::channel();
                let req = PutRequest {
                    source_filename: "src0.bin".into(),
                    destination_filename: "again.bin".into(),
                    destination_entity_id: ent(spec.to),
                    transmission_mode: TransmissionMode::Unacknowledged,
                    filestore_requests: vec![],
                    message_to_user: vec![],
                };
                let _ = ex.d[spec.from].prim_tx.send(UserPrimitive::Put(req, tx)).await;
                ex.quiesce().await;
                match rx.await {
                    Ok(id) => {
                        if ex.ids.contains(&id) {
                            ex.violations.push(("ids-not-distinct".into(), "end".into(), format!("a later Put returned {:?} again", id)));
                        }
                    }
                    Err(_) => ex.violations.push(("put-not-accepted".into(), "end".into(), "a Put at the end of the schedule was not answered".into())),
                }
            }
        }
        install_trace(None);
        RunResult { points, acts, divergence, violations: std::mem::take(&mut ex.violations), completed, steps: step, real_steps_validated: ex.validated }
    });
    drop(rt);
    heartbeat(None);
    res
}

#[derive(Default)]
pub struct DbxResult {
    pub schedules: u64,
    pub agreed: u64,
    pub choice_points: u64,
    pub incomplete: u64,
    pub pruned_ambiguous: u64,
    pub steps_validated: u64,
    pub divergences: Vec<String>,
    pub violations: Vec<Violation>,
    pub sample: Option<Value>,
    pub bound: usize,
}

/// all schedules with at most `dev_bound` deviations from the default schedule
pub fn explore_dbx(scn: &DScn) -> DbxResult {
    use rayon::prelude::*;
    let mut res = DbxResult { bound: scn.dev_bound, ..Default::default() };
    // level 0: the default schedule; level k: prefixes with exactly k deviations
    let mut frontier: Vec<Vec<usize>> = vec![vec![]];
    for level in 0..=scn.dev_bound {
        let mut next = vec![];
        // in chunks, so that the results of a level never sit in memory all at once
        for chunk in frontier.chunks(4096) {
        let runs: Vec<(Vec<usize>, RunResult)> = chunk.par_iter().map(|p| (p.clone(), run_schedule(scn, p))).collect();
        for (prefix, r) in runs {
            res.schedules += 1;
            res.choice_points += r.points.len() as u64;
            res.steps_validated += r.real_steps_validated as u64;
            if !r.completed && r.divergence.is_none() {
                res.incomplete += 1;
            }
            if let Some(dv) = &r.divergence {
                if dv.starts_with("AMBIGUOUS-TIMERS") {
                    res.pruned_ambiguous += 1;
                } else if res.divergences.len() < 5 {
                    res.divergences.push(format!("{}: {}", scn.name, dv));
                }
            } else {
                res.agreed += 1;
            }
            for (clause, sig, detail) in &r.violations {
                res.violations.push(Violation {
                    clause: clause.clone(),
                    signature: format!("{}|{}|{}", clause, scn.cfg.class(), sig),
                    detail: format!("{}\nscenario: {}\nschedule: {:?}", detail, scn.name, r.acts),
                    replay: json!({"engine": "daemon-dbx", "scenario": scn.name, "choices": r.points.iter().map(|p| p.1).collect::<Vec<_>>()}),
                });
            }
            if res.sample.is_none() && r.completed {
                res.sample = Some(json!({"scenario": scn.name, "schedule": r.acts}));
            }
            if level < scn.dev_bound {
                // one more deviation at any point at or after the end of this prefix
                for i in prefix.len()..r.points.len() {
                    for alt in 1..r.points[i].0 {
                        let mut p: Vec<usize> = r.points[..i].iter().map(|x| x.1).collect();
                        p.push(alt);
                        next.push(p);
                    }
                }
            }
        }
        }
        frontier = next;
        if frontier.is_empty() {
            break;
        }
    }
    res
}

/// the actions enabled after executing `prefix` (debugging aid)
pub fn run_schedule_probe(scn: &DScn, prefix: &[usize]) -> Vec<String> {
    let rt = tokio::runtime::Builder::new_current_thread().enable_time().start_paused(true).build().unwrap();
    rt.block_on(async {
        let mut ex = Exec::new(scn.clone()).await;
        let _ = ex.sync().await;
        for c in prefix {
            let en = ex.enabled();
            let a = en[*c].clone();
            let _ = ex.apply(&a).await;
            let _ = ex.sync().await;
        }
        install_trace(None);
        ex.enabled().iter().map(|a| format!("{:?}", a)).collect()
    })
}

// ------------------------------------------------------------------------------------------
// C06, daemon-level clause: a transport that keeps the trait's DEFAULT `pdu_handler` and whose
// `receive()` decodes raw datagrams exactly as `UdpTransport::receive` does.
struct ByteTransport {
    rx: mpsc::Receiver<Vec<u8>>,
    out: mpsc::UnboundedSender<(VariableID, PDU)>,
}
#[async_trait]
impl PDUTransport for ByteTransport {
    async fn request(&mut self, destination: VariableID, pdu: PDU) -> Result<(), IoError> {
        let _ = self.out.send((destination, pdu));
        Ok(())
    }
    async fn receive(&mut self) -> Result<PDU, IoError> {
        match self.rx.recv().await {
            Some(b) => match PDU::decode(&mut b.as_slice()) {
                Ok(pdu) => Ok(pdu),
                Err(err) => Err(IoError::new(std::io::ErrorKind::InvalidData, err.to_string())),
            },
            None => std::future::pending().await,
        }
    }
}

/// feed every datagram to one running daemon; it must keep running, keep spawning receive
/// transactions for valid PDUs and keep answering its user. Returns (datagrams fed, failures).
pub fn byte_daemon_run(inputs: &[Vec<u8>]) -> (usize, Vec<(String, String, String)>) {
    let rt = tokio::runtime::Builder::new_current_thread().enable_time().start_paused(true).build().unwrap();
    rt.block_on(async {
        let dir = EDIR.with(|d| d.clone()).join("bytes");
        let _ = std::fs::remove_dir_all(&dir);
        std::fs::create_dir_all(&dir).unwrap();
        std::fs::write(dir.join("src.bin"), b"hello").unwrap();
        let trace: TraceBuf = std::rc::Rc::new(std::cell::RefCell::new(vec![]));
        install_trace(Some(trace.clone()));
        let (prim_tx, prim_rx) = mpsc::channel(100);
        let (ind_tx, mut ind_rx) = mpsc::channel(10_000);
        let (byte_tx, byte_rx) = mpsc::channel::<Vec<u8>>(16);
        let (out_tx, mut out_rx) = mpsc::unbounded_channel();
        let transport: Box<dyn PDUTransport + Send> = Box::new(ByteTransport { rx: byte_rx, out: out_tx });
        let mut map = HashMap::new();
        map.insert(vec![ent(1)], transport);
        let fs = Arc::new(NativeFileStore::new(camino::Utf8Path::new(dir.to_str().unwrap())));
        let cfg = {
            let mut c = Scenario::base("c06");
            c.max_count = 1;
            c
        };
        let mut daemon = Daemon::new(ent(0), VariableID::from(SEQ), map, fs, HashMap::new(), entity_config(&cfg), prim_rx, ind_tx);
        let task = tokio::spawn(async move { daemon.manage_transactions().await.is_ok() });
        let mut fails = vec![];
        let mut fed = 0;
        for b in inputs {
            fed += 1;
            if byte_tx.send(b.clone()).await.is_err() {
                fails.push(("daemon-transport-died".into(), "send".into(), format!("the transport task is gone before datagram {}", hex(b))));
                break;
            }
            tokio::time::sleep(Duration::from_millis(1)).await;
            while ind_rx.try_recv().is_ok() {}
            while out_rx.try_recv().is_ok() {}
            if task.is_finished() {
                fails.push(("daemon-stopped".into(), "datagram".into(), format!("the daemon stopped after datagram {}", hex(b))));
                break;
            }
            if byte_tx.is_closed() {
                fails.push(("daemon-transport-died".into(), "datagram".into(), format!("the transport task died on datagram {}", hex(b))));
                break;
            }
        }
        if fails.is_empty() {
            // a valid metadata PDU from the peer must still start a receive transaction …
            trace.borrow_mut().clear();
            let payload = PDUPayload::Directive(Operations::Metadata(cfdp_core::pdu::MetadataPDU {
                closure_requested: false,
                checksum_type: cfdp_core::filestore::ChecksumType::Modular,
                file_size: 3,
                source_filename: "a".into(),
                destination_filename: "b".into(),
                options: vec![],
            }));
            let pdu = PDU {
                header: PDUHeader {
                    version: U3::One,
                    pdu_type: PDUType::FileDirective,
                    direction: Direction::ToReceiver,
                    transmission_mode: TransmissionMode::Unacknowledged,
                    crc_flag: CRCFlag::NotPresent,
                    large_file_flag: FileSizeFlag::Small,
                    pdu_data_field_length: payload.encoded_len(FileSizeFlag::Small),
                    segmentation_control: SegmentationControl::NotPreserved,
                    segment_metadata_flag: SegmentedData::NotPresent,
                    source_entity_id: ent(1),
                    transaction_sequence_number: VariableID::from(4242u16),
                    destination_entity_id: ent(0),
                },
                payload,
            };
            let _ = byte_tx.send(pdu.encode()).await;
            tokio::time::sleep(Duration::from_millis(1)).await;
            if !trace.borrow().iter().any(|e| matches!(e.2, LoopStep::Spawned("recv"))) {
                fails.push(("daemon-deaf".into(), "".into(), "after the malformed datagrams a valid Metadata PDU did not start a receive transaction".into()));
            }
            // … and a Put must still be answered
            let (tx, rx) = oneshot::channel();
            let req = PutRequest { source_filename: "src.bin".into(), destination_filename: "dst.bin".into(), destination_entity_id: ent(1), transmission_mode: TransmissionMode::Unacknowledged, filestore_requests: vec![], message_to_user: vec![] };
            let _ = prim_tx.send(UserPrimitive::Put(req, tx)).await;
            tokio::time::sleep(Duration::from_millis(1)).await;
            if rx.await.is_err() {
                fails.push(("put-not-accepted".into(), "".into(), "after the malformed datagrams a Put was not answered".into()));
            }
        }
        install_trace(None);
        (fed, fails)
    })
}
